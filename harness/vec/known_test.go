package vec

import (
	"fmt"
	"math"
	"testing"

	"verif/harness/stats"
)

// Plain (non-rapid) reproductions of the C33 findings. Each one is skipped until the main session
// lists its slug in known_findings.json; once listed it prints the KNOWN-FINDING line while the defect
// still reproduces and passes silently when it no longer does.

type captured struct{ msg string }

type captureTB struct{ c *captured }

func (c captureTB) Fatalf(format string, args ...any) {
	c.c.msg = fmt.Sprintf(format, args...)
	panic(c.c)
}
func (c captureTB) Logf(string, ...any) {}

// reproduces runs the history with the full (strict) oracle and returns the first violation, "" if none.
func reproduces(s script) (msg string) {
	c := &captured{}
	defer func() {
		if r := recover(); r != nil {
			if r == any(c) {
				msg = c.msg
				return
			}
			msg = fmt.Sprintf("panic: %v", r) // a runtime panic inside the code under test
		}
	}()
	runScript(captureTB{c}, s, true)
	return ""
}

func it(id string, cat, rev int, v ...float32) itemJ {
	return itemJ{ID: id, V: v, P: pay{Cat: cat, Rev: rev}}
}

func up(j itemJ) op { return op{K: "U", Items: []itemJ{j}} }

func knownCase(t *testing.T, slug, what string, scripts ...script) {
	if !stats.Known("C33", slug) {
		t.Skip("not listed in known_findings.json")
	}
	for _, s := range scripts {
		if msg := reproduces(s); msg != "" {
			t.Logf("still reproduces: %s", msg)
			stats.For("C33").KnownFinding(slug + ": " + what)
			return
		}
	}
}

// Upsert a=[1,0], Upsert b=[0,1] in DynamicWithVectorCountTracking mode: Get(a) returns [0.5,0.5].
func TestC33_Known_RollingAverageOverwritesItemVector(t *testing.T) {
	knownCase(t, slugAlias,
		"DynamicWithVectorCountTracking: after Upsert(a,[1,0]) Upsert(b,[0,1]) Get(a) returns [0.5,0.5] - the first centroid shares the item's slice and the rolling average is written through it",
		script{Cfg: caseCfg{Dim: 2, NIDs: 2, Mode: 1}, Ops: []op{up(it("k00", 0, 1, 1, 0)), up(it("k01", 0, 2, 0, 1))}})
}

// Upsert a, Delete a, Delete a, Upsert b: the centroid's VectorCount is -1, the rolling average divides by zero.
func TestC33_Known_VectorCountUnderflow(t *testing.T) {
	knownCase(t, slugCount,
		"DynamicWithVectorCountTracking: Upsert(a) Delete(a) Delete(a) Upsert(b) leaves a centroid of +-Inf and the commit fails (VectorCount decremented twice, rolling average divides by VectorCount+1 = 0)",
		script{Cfg: caseCfg{Dim: 2, NIDs: 2, Mode: 1}, Ops: []op{up(it("k00", 0, 1, 1, 0)), {K: "D", ID: "k00"}, {K: "D", ID: "k00"}, up(it("k01", 0, 2, 0, 1))}})
}

// EnableIngestionBuffer: Upsert a, Optimize, reopen with the same Config: Get(a) fails.
func TestC33_Known_BufferGetAfterOptimize(t *testing.T) {
	knownCase(t, slugBuffer,
		"EnableIngestionBuffer: after Upsert(a) Optimize, Get(a) through a store opened with the same Config fails with 'item vector not found in TempVectors'",
		script{Cfg: caseCfg{Dim: 2, NIDs: 2, Mode: 0, Buffer: true}, Ops: []op{up(it("k00", 0, 1, 1, 0)), {K: "O"}}})
}

// EnableIngestionBuffer: Upsert a, Upsert b, Delete b (or a), Optimize: b is live again with an empty vector / Optimize panics.
func TestC33_Known_StagedDeleteResurrected(t *testing.T) {
	knownCase(t, slugStagedDelete,
		"EnableIngestionBuffer: Upsert(a) Upsert(b) Delete(b) Optimize resurrects b with an empty vector (Count 2); deleting a instead makes Optimize panic in Consolidate (nil centroid)",
		script{Cfg: caseCfg{Dim: 2, NIDs: 2, Mode: 0, Buffer: true}, Ops: []op{up(it("k00", 0, 1, 1, 0)), up(it("k01", 0, 2, 0, 1)), {K: "D", ID: "k01"}, {K: "O"}, {K: "X"}}},
		script{Cfg: caseCfg{Dim: 2, NIDs: 2, Mode: 0, Buffer: true}, Ops: []op{up(it("k00", 0, 1, 1, 0)), up(it("k01", 0, 2, 0, 1)), {K: "D", ID: "k00"}, {K: "O"}, {K: "X"}}})
}

// ContentSize=BigData: Upsert a, Optimize, then in one transaction Get(a), Upsert(an id sorting before a), Get(a).
func TestC33_Known_BigDataSecondRead(t *testing.T) {
	knownCase(t, slugBigData,
		"ContentSize=BigData: Upsert(k19) Optimize, then in one transaction Get(k19) Upsert(k02) Get(k19): the second Get fails with 'unexpected end of JSON input' (stale slot pointer in the item action tracker skips the value fetch)",
		script{Cfg: caseCfg{Dim: 2, NIDs: 20, Mode: 0, Content: 2}, Ops: []op{up(it("k19", 0, 1, 1, 0)), {K: "O"}, {K: "G", ID: "k19"}, up(it("k02", 0, 2, 0, 1)), {K: "G", ID: "k19"}}})
}

// TestC33_LargeIndexOptimize (always on): 230 and 450 items - more than one of Optimize's internal batches of 200 -
// are stored in one batch, committed and optimized; afterwards every id must be gettable with its vector and payload
// and be the best hit of a query for its own vector, and Count must equal the number of items.
func TestC33_LargeIndexOptimize(t *testing.T) {
	rec := stats.For("C33")
	for _, n := range []int{230, 450} {
		var items []itemJ
		for i := 0; i < n; i++ {
			// distinct directions in 3 dimensions
			a := float64(i) * 0.0137
			items = append(items, itemJ{ID: fmt.Sprintf("k%04d", i), V: []float32{float32(math.Cos(a)), float32(math.Sin(a)), float32(i%7) * 0.01}, P: pay{Cat: i % 5, Rev: 1}})
		}
		s := script{Cfg: caseCfg{Dim: 3, NIDs: n, Mode: 0}, Ops: []op{{K: "B", Items: items}, {K: "R"}, {K: "O"}, {K: "X"}, {K: "C"}}}
		for i := 0; i < n; i += 17 {
			s.Ops = append(s.Ops, op{K: "G", ID: items[i].ID}, op{K: "Q", Q: items[i].V, Kn: 1})
		}
		// the ids beyond the first batch in particular
		for i := 200; i < n; i += 9 {
			s.Ops = append(s.Ops, op{K: "G", ID: items[i].ID})
		}
		runScript(t, s, true)
		rec.Case(fmt.Sprintf("large index %d items: batch, commit, optimize, read back", n), true, "largeIndexOptimize")
	}
}
