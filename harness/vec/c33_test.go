package vec

import (
	"context"
	"crypto/sha1"
	"encoding/json"
	"fmt"
	"io"
	"log/slog"
	"math"
	"os"
	"path/filepath"
	"sort"
	"testing"
	"time"

	"github.com/sharedcode/sop"
	"github.com/sharedcode/sop/ai"
	aidb "github.com/sharedcode/sop/ai/database"
	"github.com/sharedcode/sop/ai/vector"
	"github.com/sharedcode/sop/btree"
	_ "github.com/sharedcode/sop/cache"
	"github.com/sharedcode/sop/infs"
	"pgregory.net/rapid"

	"verif/harness/stats"
)

func init() {
	// the vector package logs one slog.Warn line per write call; the check does not read them
	slog.SetDefault(slog.New(slog.NewTextHandler(io.Discard, &slog.HandlerOptions{Level: slog.LevelError + 4})))
}

// ---------------------------------------------------------------------------------------------
// Known findings of C33 (see known_test.go for the plain reproductions). A class is avoided by the
// generator only while its slug is listed in known_findings.json.

// slugAlias: in DynamicWithVectorCountTracking mode a centroid created from an item's vector shares
// that slice; the rolling centroid average then overwrites the stored item vector.
const slugAlias = "centroid-rolling-average-overwrites-item-vector"

// slugCount: DynamicWithVectorCountTracking decrements a centroid's VectorCount again when an already
// tombstoned id is deleted or re-upserted; at -1 the rolling average divides by zero, the centroid
// becomes Inf/NaN and the commit (or Optimize) fails on JSON encoding.
const slugCount = "vector-count-underflow-makes-centroid-nan"

// slugBuffer: with EnableIngestionBuffer, Get looks only in the staging store, so every item that
// Optimize/Consolidate moved into the index becomes unreadable through a store opened with the same Config.
const slugBuffer = "ingestion-buffer-get-fails-after-consolidate"

// slugStagedDelete: Consolidate (run by Optimize) re-indexes every staged entry without looking at the
// tombstone, so an item deleted while still in the ingestion buffer comes back with an empty vector,
// or Optimize panics when the tombstoned entry is the first staged key.
const slugStagedDelete = "consolidate-ignores-staged-tombstones"

// slugBigData: core B-tree defect reached through ContentSize=BigData (values actively persisted and
// "unfetched" when the cursor moves): the item action tracker keeps a pointer into the node's slot
// array; after an insert shifts the slots a second read of the same item in the same transaction
// skips the fetch and returns the zero value, so Get fails with "unexpected end of JSON input".
const slugBigData = "bigdata-content-second-read-in-transaction-returns-empty"

// ---------------------------------------------------------------------------------------------

// pay is the payload type T of the store under test; Cat is the filterable field.
type pay struct {
	Cat int    `json:"cat"`
	Rev int    `json:"rev"`
	Tag string `json:"tag,omitempty"`
}

type mitem struct {
	vec []float32
	p   pay
}

const scoreTol = 1e-5

// cos64 is the reference cosine similarity, computed in float64 from the model's vector.
func cos64(a, b []float32) float64 {
	var dot, na, nb float64
	for i := range a {
		dot += float64(a[i]) * float64(b[i])
		na += float64(a[i]) * float64(a[i])
		nb += float64(b[i]) * float64(b[i])
	}
	return dot / (math.Sqrt(na) * math.Sqrt(nb))
}

func vecEq(a, b []float32) bool {
	if len(a) != len(b) {
		return false
	}
	for i := range a {
		if a[i] != b[i] {
			return false
		}
	}
	return true
}

// caseCfg is the per-case configuration of the store.
type caseCfg struct {
	Dim     int  `json:"dim"`
	NIDs    int  `json:"ids"`
	Mode    int  `json:"mode"` // ai.UsageMode
	Buffer  bool `json:"buffer"`
	Content int  `json:"content"` // sop.ValueDataSize
}

type itemJ struct {
	ID  string    `json:"id"`
	V   []float32 `json:"v"`
	P   pay       `json:"p"`
	Cid int       `json:"cid,omitempty"`
}

// op is one step of a history. K: U upsert, B batch, D delete, G get, Q query, C count, O optimize,
// R commit+reopen, X switch the ingestion buffer off for later sessions, L leave the lookup store of an
// interrupted earlier Optimize behind (as the repository's TestOptimize_GracePeriod does).
type op struct {
	K     string    `json:"k"`
	ID    string    `json:"id,omitempty"`
	Items []itemJ   `json:"items,omitempty"`
	Q     []float32 `json:"q,omitempty"`
	Kn    int       `json:"kn,omitempty"`
	F     int       `json:"f,omitempty"`
}

type script struct {
	Cfg caseCfg `json:"cfg"`
	Ops []op    `json:"ops"`
}

// tb is the part of *rapid.T / *testing.T the executor needs.
type tb interface {
	Fatalf(format string, args ...any)
	Logf(format string, args ...any)
}

// machine drives one vector store domain on a private temp directory next to the model.
type machine struct {
	ctx    context.Context
	cc     caseCfg
	dir    string
	domain string
	db     *aidb.Database
	cfg    vector.Config
	tx     sop.Transaction
	idx    ai.VectorStore[pay]
	txMode sop.TransactionMode

	live    map[string]mitem // the model
	ever    map[string]bool
	tomb    map[string]bool // deleted since the last Optimize and not stored again (soft-deleted in the store)
	ops     []op
	pending bool // uncommitted writes in the open transaction
	created bool // a write session has been committed, i.e. the domain's stores exist on disk
	// vecTrusted is false only when the listed known finding slugAlias applies to this case's usage
	// mode: stored vectors may then be overwritten, so vector values and scores are not compared.
	vecTrusted bool

	// classification
	mutSinceOpt   bool // a delete of a live id or a re-upsert since the last Optimize (or start)
	tombSinceOpt  bool // a delete of a live id since the last Optimize
	nOptimize     int
	staleLeftover bool
	nontrivial    bool
	labels        map[string]bool
}

func newMachine(cc caseCfg, dir string) *machine {
	db := aidb.NewDatabase(sop.DatabaseOptions{StoresFolders: []string{dir}, CacheType: sop.InMemory})
	return &machine{
		ctx: context.Background(), cc: cc, dir: dir, domain: "dom", db: db,
		cfg: vector.Config{
			UsageMode:             ai.UsageMode(cc.Mode),
			ContentSize:           sop.ValueDataSize(cc.Content),
			EnableIngestionBuffer: cc.Buffer,
			TransactionOptions:    sop.TransactionOptions{StoresFolders: []string{dir}, CacheType: sop.InMemory},
			Cache:                 db.Cache(),
		},
		live: map[string]mitem{}, ever: map[string]bool{}, tomb: map[string]bool{}, labels: map[string]bool{},
		vecTrusted: true,
	}
}

func (m *machine) label(l string) { m.labels[l] = true }

func (m *machine) ids() []string {
	r := make([]string, m.cc.NIDs)
	for i := range r {
		r[i] = fmt.Sprintf("k%02d", i)
	}
	return r
}

func (m *machine) history() string {
	b, _ := json.Marshal(script{Cfg: m.cc, Ops: m.ops})
	return string(b)
}

var smallestReplay = 1 << 30

// fail reports a violation; the history is also written as replay-c33-<sha>.json (smallest so far)
// into the working directory, from where the driver copies it to /verif/replays/C33/.
func (m *machine) fail(t tb, format string, args ...any) {
	h := m.history()
	if len(m.ops) < smallestReplay && os.Getenv("VERIF_STATS") != "" {
		smallestReplay = len(m.ops)
		old, _ := filepath.Glob("replay-c33-*.json")
		for _, f := range old {
			_ = os.Remove(f)
		}
		sum := sha1.Sum([]byte(h))
		_ = os.WriteFile(fmt.Sprintf("replay-c33-%x.json", sum[:6]), []byte(h), 0o644)
	}
	t.Fatalf("%s\nhistory: %s", fmt.Sprintf(format, args...), h)
}

func (m *machine) open(t tb, mode sop.TransactionMode) {
	tx, err := m.db.BeginTransaction(m.ctx, mode)
	if err != nil {
		m.fail(t, "BeginTransaction: %v", err)
	}
	idx, err := vector.Open[pay](m.ctx, tx, m.domain, m.cfg)
	if err != nil {
		m.fail(t, "vector.Open: %v", err)
	}
	m.tx, m.idx, m.pending, m.txMode = tx, idx, false, mode
}

func (m *machine) commit(t tb) {
	if m.tx == nil {
		return
	}
	if err := m.tx.Commit(m.ctx); err != nil {
		m.fail(t, "Commit failed: %v", err)
	}
	if m.txMode == sop.ForWriting {
		m.created = true // every write session of the harness performs at least one store operation
	}
	m.tx, m.idx, m.pending = nil, nil, false
}

func (m *machine) ensureOpen(t tb) {
	if m.tx == nil {
		m.open(t, sop.ForWriting)
	}
}

func (m *machine) rollbackIfOpen() {
	if m.tx != nil && m.tx.HasBegun() {
		_ = m.tx.Rollback(m.ctx)
	}
	m.tx, m.idx = nil, nil
}

func toItem(j itemJ) ai.Item[pay] {
	// the store gets its own copy of the vector: the model's copy must not be reachable from SOP
	return ai.Item[pay]{ID: j.ID, Vector: append([]float32(nil), j.V...), Payload: j.P, CentroidID: j.Cid}
}

func (m *machine) applyUpsert(j itemJ) {
	if m.ever[j.ID] {
		m.mutSinceOpt = true
		if _, isLive := m.live[j.ID]; isLive {
			m.label("reupsertLive")
		} else if m.tomb[j.ID] {
			m.label("reupsertSoftDeleted")
		} else {
			m.label("reupsertAfterGC")
		}
	}
	if j.Cid != 0 {
		m.label("explicitCentroid")
	}
	m.ever[j.ID] = true
	delete(m.tomb, j.ID)
	m.live[j.ID] = mitem{vec: append([]float32(nil), j.V...), p: j.P}
}

func (m *machine) checkGet(t tb, idx ai.VectorStore[pay], id, when string) {
	got, err := idx.Get(m.ctx, id)
	want, isLive := m.live[id]
	if !isLive {
		if err == nil {
			kind := "never stored"
			if m.ever[id] {
				kind = "deleted"
			}
			m.fail(t, "%s: Get(%s) of a %s id succeeded: %+v", when, id, kind, got)
		}
		return
	}
	if err != nil {
		m.fail(t, "%s: Get(%s) of a live id failed: %v (model %v %+v)", when, id, err, want.vec, want.p)
	}
	if got == nil || got.ID != id || (m.vecTrusted && !vecEq(got.Vector, want.vec)) || got.Payload != want.p {
		m.fail(t, "%s: Get(%s) = %+v, latest stored is vector %v payload %+v", when, id, got, want.vec, want.p)
	}
}

func (m *machine) checkCount(t tb, idx ai.VectorStore[pay], when string, must bool) {
	n, err := idx.Count(m.ctx)
	if err != nil {
		m.fail(t, "%s: Count failed: %v", when, err)
	}
	if must && n != int64(len(m.live)) {
		m.fail(t, "%s: Count = %d, model has %d live items", when, n, len(m.live))
	}
}

// ageStoreFiles moves every storeinfo.txt two hours into the past: Optimize refuses to clean up
// artifacts of an earlier run that are younger than its one-hour grace period (by mtime).
func (m *machine) ageStoreFiles(t tb) {
	old := time.Now().Add(-2 * time.Hour)
	err := filepath.Walk(m.dir, func(p string, fi os.FileInfo, err error) error {
		if err != nil {
			return nil
		}
		if !fi.IsDir() && fi.Name() == "storeinfo.txt" {
			return os.Chtimes(p, old, old)
		}
		return nil
	})
	if err != nil {
		t.Fatalf("HARNESS-ERROR: aging store files: %v", err)
	}
}

// verifyAll opens a fresh transaction and compares every id of the domain with the model.
func (m *machine) verifyAll(t tb, when string, countMust bool) {
	mode := sop.ForReading
	if !m.created {
		mode = sop.ForWriting // a read-only transaction cannot open a domain that was never created
	}
	m.open(t, mode)
	for _, id := range m.ids() {
		m.checkGet(t, m.idx, id, when)
	}
	m.checkCount(t, m.idx, when, countMust)
	m.commit(t)
}

func filterOf(fk int) (filter func(pay) bool, pass func(pay) bool) {
	switch fk {
	case 0, 1:
		return nil, func(pay) bool { return true }
	case 2, 3, 4:
		c := fk - 2
		f := func(p pay) bool { return p.Cat == c }
		return f, f
	default:
		f := func(pay) bool { return false }
		return f, f
	}
}

// exec applies one step to the store and to the model and checks what the step returns.
func (m *machine) exec(t tb, o op) {
	m.ops = append(m.ops, o)
	switch o.K {
	case "U":
		m.ensureOpen(t)
		j := o.Items[0]
		if err := m.idx.Upsert(m.ctx, toItem(j)); err != nil {
			m.fail(t, "Upsert(%s) failed: %v", j.ID, err)
		}
		m.applyUpsert(j)
		m.pending = true
	case "B":
		m.ensureOpen(t)
		items := make([]ai.Item[pay], len(o.Items))
		for i, j := range o.Items {
			items[i] = toItem(j)
		}
		if err := m.idx.UpsertBatch(m.ctx, items); err != nil {
			m.fail(t, "UpsertBatch failed: %v", err)
		}
		for _, j := range o.Items {
			m.applyUpsert(j)
		}
		m.pending = true
		m.label("batch")
	case "D":
		m.ensureOpen(t)
		_, wasLive := m.live[o.ID]
		err := m.idx.Delete(m.ctx, o.ID)
		if wasLive {
			if err != nil {
				m.fail(t, "Delete(%s) of a live item failed: %v", o.ID, err)
			}
			delete(m.live, o.ID)
			m.tomb[o.ID] = true
			m.mutSinceOpt, m.tombSinceOpt = true, true
			m.label("deleteLive")
		} else if m.tomb[o.ID] {
			// deleting an absent id: nil or an error are both acceptable, the model is unchanged
			m.label("deleteSoftDeleted")
		} else {
			m.label("deleteAbsent")
		}
		m.pending = true
	case "G":
		m.ensureOpen(t)
		if _, ok := m.live[o.ID]; ok {
			m.label("getLive")
		} else if m.ever[o.ID] {
			m.label("getDeleted")
		} else {
			m.label("getNever")
		}
		m.checkGet(t, m.idx, o.ID, "Get")
	case "Q":
		m.ensureOpen(t)
		m.execQuery(t, o)
	case "C":
		m.ensureOpen(t)
		// Soft-deleted items are documented to stay in the Content store until Optimize, so Count is
		// compared only while no tombstone can exist.
		must := !m.tombSinceOpt
		if must {
			m.label("countChecked")
		} else {
			m.label("countWithTombstones")
		}
		m.checkCount(t, m.idx, "Count", must)
	case "R":
		m.commit(t)
		m.label("reopen")
	case "X":
		m.cfg.EnableIngestionBuffer = false
	case "L":
		// The artifact of an Optimize that died in phase 1: the next version's lookup store exists.
		// The next Optimize must remove it (its files are aged past the grace period first) and succeed.
		m.commit(t)
		tx, err := m.db.BeginTransaction(m.ctx, sop.ForWriting)
		if err != nil {
			m.fail(t, "BeginTransaction: %v", err)
		}
		name := fmt.Sprintf("%s/lku_%d", m.domain, m.nOptimize+1)
		b3, err := infs.NewBtree[int, string](m.ctx, sop.ConfigureStore(name, true, btree.DefaultSlotLength, "Lookup", sop.SmallData, ""), tx, func(a, b int) int { return a - b })
		if err != nil {
			m.fail(t, "creating the stale lookup store %s: %v", name, err)
		}
		if _, err := b3.Add(m.ctx, 0, "k00"); err != nil {
			m.fail(t, "filling the stale lookup store %s: %v", name, err)
		}
		if err := tx.Commit(m.ctx); err != nil {
			m.fail(t, "committing the stale lookup store %s: %v", name, err)
		}
		m.staleLeftover = true
	case "O":
		m.ensureOpen(t)
		if m.pending {
			m.label("optimizeWithPendingWrites")
		}
		if m.mutSinceOpt {
			m.nontrivial = true
			m.label("optimizeAfterDeleteOrReupsert")
		}
		if m.tombSinceOpt {
			m.label("optimizeWithTombstones")
		}
		if len(m.live) == 0 {
			m.label("optimizeEmpty")
		}
		if m.nOptimize > 0 {
			m.label("optimizeRepeated")
		}
		if m.cfg.EnableIngestionBuffer {
			m.label("optimizeFromBuffer")
		}
		if m.staleLeftover {
			m.label("optimizeOverStaleLeftover")
			m.staleLeftover = false
		}
		m.ageStoreFiles(t)
		if err := m.idx.Optimize(m.ctx); err != nil {
			m.fail(t, "Optimize failed: %v", err)
		}
		// Optimize committed the transaction passed to Open; it must not be used again.
		m.tx, m.idx, m.pending, m.created = nil, nil, false, true
		m.nOptimize++
		m.mutSinceOpt, m.tombSinceOpt = false, false
		m.tomb = map[string]bool{}
	default:
		t.Fatalf("HARNESS-ERROR: unknown op %q", o.K)
	}
}

// afterOptimize is the property's "never loses, duplicates or resurrects": every id of the domain is
// read back through a fresh transaction and Count must agree with the model.
func (m *machine) afterOptimize(t tb) {
	m.verifyAll(t, fmt.Sprintf("after Optimize #%d", m.nOptimize), true)
}

func (m *machine) execQuery(t tb, o op) {
	filter, pass := filterOf(o.F)
	hits, err := m.idx.Query(m.ctx, append([]float32(nil), o.Q...), o.Kn, filter)
	if err != nil {
		m.fail(t, "Query failed: %v", err)
	}
	if len(hits) > o.Kn {
		m.fail(t, "Query returned %d hits for k=%d: %+v", len(hits), o.Kn, hits)
	}
	seen := map[string]bool{}
	for i, h := range hits {
		if seen[h.ID] {
			m.fail(t, "Query returned id %s twice: %+v", h.ID, hits)
		}
		seen[h.ID] = true
		want, isLive := m.live[h.ID]
		if !isLive {
			m.fail(t, "Query returned id %s which is not live (ever stored=%v): %+v", h.ID, m.ever[h.ID], hits)
		}
		if !pass(want.p) {
			m.fail(t, "Query returned id %s whose payload %+v does not pass filter %d: %+v", h.ID, want.p, o.F, hits)
		}
		if h.Payload != want.p {
			m.fail(t, "Query hit %s carries payload %+v, latest is %+v", h.ID, h.Payload, want.p)
		}
		ref := cos64(o.Q, want.vec)
		if d := math.Abs(float64(h.Score) - ref); m.vecTrusted && !(d <= scoreTol) {
			m.fail(t, "Query hit %s has score %v, cosine(query, latest vector %v) = %v (diff %g): %+v", h.ID, h.Score, want.vec, ref, d, hits)
		}
		if i > 0 && h.Score > hits[i-1].Score {
			m.fail(t, "Query scores are not non-increasing at position %d: %+v", i, hits)
		}
	}
	m.label("query")
	if len(hits) > 0 {
		m.label("queryHits")
	}
	if len(hits) > 1 {
		m.label("queryMultiHit")
	}
	if o.Kn > 0 && len(hits) == o.Kn {
		m.label("queryFullK")
	}
	if filter != nil && len(hits) > 0 {
		m.label("queryFilteredHits")
	}
	if m.tombSinceOpt {
		m.label("queryWithTombstones")
	}
}

// finish ends a history: commit and compare the whole domain once more through a fresh transaction.
func (m *machine) finish(t tb) {
	m.commit(t)
	m.verifyAll(t, "final state", !m.tombSinceOpt)
}

// runScript replays a history without rapid (regression tests, ./check --replay of a JSON file).
func runScript(t tb, s script, strict bool) *machine {
	dir, err := os.MkdirTemp("", "c33-*")
	if err != nil {
		t.Fatalf("HARNESS-ERROR: MkdirTemp: %v", err)
	}
	defer os.RemoveAll(dir)
	m := newMachine(s.Cfg, dir)
	defer m.rollbackIfOpen()
	if !strict && s.Cfg.Mode == int(ai.DynamicWithVectorCountTracking) && stats.Known("C33", slugAlias) {
		m.vecTrusted = false
	}
	for i := 0; i < len(s.Ops); i++ {
		m.exec(t, s.Ops[i])
		if s.Ops[i].K == "O" {
			if i+1 < len(s.Ops) && s.Ops[i+1].K == "X" { // same order as the generator: switch, then verify
				i++
				m.exec(t, s.Ops[i])
			}
			m.afterOptimize(t)
		}
	}
	m.finish(t)
	return m
}

// ---------------------------------------------------------------------------------------------
// generator

type gen struct {
	m    *machine
	rec  *stats.Rec
	pool [][]float32
	step int
}

func (g *gen) drawVec(t *rapid.T, what string) []float32 {
	v := make([]float32, g.m.cc.Dim)
	switch k := rapid.IntRange(0, 9).Draw(t, what+"Kind"); {
	case k <= 3:
		copy(v, g.pool[rapid.IntRange(0, len(g.pool)-1).Draw(t, what+"Pool")])
	case k <= 8:
		for i := range v {
			v[i] = float32(rapid.IntRange(-8, 8).Draw(t, what+"Grid")) * 0.25
		}
	default:
		for i := range v {
			x := rapid.Float32Range(-100, 100).Draw(t, what+"Free")
			if x != 0 && x > -0.01 && x < 0.01 {
				x = 0.01
			}
			v[i] = x
		}
	}
	zero := true
	for _, x := range v {
		if x != 0 {
			zero = false
		}
	}
	if zero {
		v[0] = 1 // cosine similarity is undefined for the zero vector: outside the property's domain
	}
	return v
}

func (g *gen) pickID(t *rapid.T) string {
	// half of the picks go to ids that were stored at some point, so that re-upserts, deletes and
	// gets of live / deleted ids are frequent even with 30 ids
	if len(g.m.ever) > 0 && rapid.Bool().Draw(t, "knownID") {
		known := make([]string, 0, len(g.m.ever))
		for id := range g.m.ever {
			known = append(known, id)
		}
		sort.Strings(known)
		return known[rapid.IntRange(0, len(known)-1).Draw(t, "idx")]
	}
	return fmt.Sprintf("k%02d", rapid.IntRange(0, g.m.cc.NIDs-1).Draw(t, "id"))
}

func (g *gen) drawItem(t *rapid.T, id string) itemJ {
	g.step++
	j := itemJ{
		ID: id,
		V:  g.drawVec(t, "vec"),
		P: pay{
			Cat: rapid.IntRange(0, 2).Draw(t, "cat"),
			Rev: g.step,
			Tag: rapid.SampledFrom([]string{"", "", "a", "é\"q\\", "<&>"}).Draw(t, "tag"),
		},
	}
	if rapid.IntRange(0, 6).Draw(t, "explicitCid") == 0 {
		j.Cid = rapid.IntRange(1, 3).Draw(t, "cid")
	}
	return j
}

// avoidSoftDeleted reports whether touching id must be avoided because of the listed finding slugCount.
func (g *gen) avoidSoftDeleted(id string) bool {
	if g.m.cc.Mode == int(ai.DynamicWithVectorCountTracking) && g.m.tomb[id] && stats.Known("C33", slugCount) {
		g.rec.Exclude("Delete/Upsert of a soft-deleted id in DynamicWithVectorCountTracking cases (" + slugCount + ")")
		return true
	}
	return false
}

func (g *gen) actUpsert(t *rapid.T) {
	id := g.pickID(t)
	if g.avoidSoftDeleted(id) {
		t.Skip("listed known finding")
	}
	g.m.exec(t, op{K: "U", Items: []itemJ{g.drawItem(t, id)}})
}

func (g *gen) actUpsertBatch(t *rapid.T) {
	n := rapid.IntRange(1, 8).Draw(t, "batchN")
	seen := map[string]bool{}
	var items []itemJ
	for i := 0; i < n; i++ {
		id := g.pickID(t)
		if seen[id] {
			continue // ids inside one batch are kept distinct ("latest" would be ambiguous otherwise)
		}
		if g.avoidSoftDeleted(id) {
			continue
		}
		seen[id] = true
		items = append(items, g.drawItem(t, id))
	}
	if len(items) == 0 {
		t.Skip("empty batch")
	}
	g.m.exec(t, op{K: "B", Items: items})
}

func (g *gen) actDelete(t *rapid.T) {
	id := g.pickID(t)
	if _, isLive := g.m.live[id]; isLive && g.m.cfg.EnableIngestionBuffer && stats.Known("C33", slugStagedDelete) {
		g.rec.Exclude("Delete of a live item while the ingestion buffer is enabled (" + slugStagedDelete + ")")
		t.Skip("listed known finding")
	}
	if g.avoidSoftDeleted(id) {
		t.Skip("listed known finding")
	}
	g.m.exec(t, op{K: "D", ID: id})
}

func (g *gen) actGet(t *rapid.T) { g.m.exec(t, op{K: "G", ID: g.pickID(t)}) }

func (g *gen) actQuery(t *rapid.T) {
	g.m.exec(t, op{K: "Q", Q: g.drawVec(t, "q"), Kn: rapid.IntRange(0, 12).Draw(t, "k"), F: rapid.IntRange(0, 5).Draw(t, "filter")})
}

func (g *gen) actCount(t *rapid.T) { g.m.exec(t, op{K: "C"}) }

func (g *gen) actReopen(t *rapid.T) {
	if g.m.tx == nil {
		t.Skip("nothing open")
	}
	g.m.exec(t, op{K: "R"})
}

func (g *gen) actOptimize(t *rapid.T) {
	if len(g.m.ever) == 0 {
		t.Skip("nothing stored yet")
	}
	if rapid.IntRange(0, 5).Draw(t, "staleLeftover") == 0 {
		g.m.exec(t, op{K: "L"})
	}
	g.m.exec(t, op{K: "O"})
	if g.m.cfg.EnableIngestionBuffer && stats.Known("C33", slugBuffer) {
		// listed finding: go on the way the repository's own lifecycle test does, i.e. the buffer is
		// used for the initial ingestion only and later sessions open the store without it
		g.rec.Exclude("sessions with EnableIngestionBuffer after the first Optimize (" + slugBuffer + ")")
		g.m.exec(t, op{K: "X"})
	}
	g.m.afterOptimize(t)
}

func runCase(t *rapid.T, rec *stats.Rec) {
	cc := caseCfg{
		Dim:     rapid.IntRange(2, 8).Draw(t, "dim"),
		NIDs:    rapid.IntRange(2, 30).Draw(t, "nIDs"),
		Mode:    int(rapid.SampledFrom([]ai.UsageMode{ai.Dynamic, ai.DynamicWithVectorCountTracking, ai.BuildOnceQueryMany}).Draw(t, "mode")),
		Buffer:  rapid.Bool().Draw(t, "buffer"),
		Content: int(rapid.SampledFrom([]sop.ValueDataSize{sop.SmallData, sop.MediumData, sop.BigData}).Draw(t, "content")),
	}
	if cc.Content == int(sop.BigData) && stats.Known("C33", slugBigData) {
		rec.Exclude("ContentSize=BigData cases, run with MediumData instead (" + slugBigData + ")")
		cc.Content = int(sop.MediumData)
	}
	dir, err := os.MkdirTemp("", "c33-*")
	if err != nil {
		t.Fatalf("HARNESS-ERROR: MkdirTemp: %v", err)
	}
	defer os.RemoveAll(dir)
	m := newMachine(cc, dir)
	if m.cfg.Cache == nil {
		t.Fatalf("HARNESS-ERROR: no in-memory L2 cache registered")
	}
	g := &gen{m: m, rec: rec}
	if cc.Mode == int(ai.DynamicWithVectorCountTracking) && stats.Known("C33", slugAlias) {
		m.vecTrusted = false
		rec.Exclude("vector-value and score comparison in DynamicWithVectorCountTracking cases (" + slugAlias + ")")
	}
	nPool := rapid.IntRange(2, 5).Draw(t, "nPool")
	for i := 0; i < nPool; i++ {
		v := make([]float32, cc.Dim)
		for j := range v {
			v[j] = float32(rapid.IntRange(-8, 8).Draw(t, "poolGrid")) * 0.25
		}
		if vecEq(v, make([]float32, cc.Dim)) {
			v[i%cc.Dim] = 1
		}
		g.pool = append(g.pool, v)
	}
	defer func() {
		if r := recover(); r != nil {
			if _, isErr := r.(error); isErr { // a Go runtime panic inside the code under test
				t.Logf("panic %v\nhistory: %s", r, m.history())
			}
			panic(r)
		}
	}()
	defer m.rollbackIfOpen()

	t.Repeat(map[string]func(*rapid.T){
		"Upsert":      g.actUpsert,
		"UpsertBatch": g.actUpsertBatch,
		"Delete":      g.actDelete,
		"Get":         g.actGet,
		"Query":       g.actQuery,
		"Count":       g.actCount,
		"Optimize":    g.actOptimize,
		"Reopen":      g.actReopen,
	})
	m.finish(t)

	labels := []string{fmt.Sprintf("mode%d", cc.Mode), fmt.Sprintf("content%d", cc.Content), fmt.Sprintf("buffer=%v", cc.Buffer)}
	switch {
	case m.nOptimize == 0:
		labels = append(labels, "optimize0")
	case m.nOptimize == 1:
		labels = append(labels, "optimize1")
	default:
		labels = append(labels, "optimize2+")
	}
	for l := range m.labels {
		labels = append(labels, l)
	}
	sort.Strings(labels)
	h := m.history()
	rec.Case(h, m.nontrivial, labels...)
	if m.nontrivial && len(m.ops) <= 14 {
		rec.Sample(fmt.Sprintf("mode%d/buffer=%v", cc.Mode, cc.Buffer), json.RawMessage(h))
	}
}

// TestC33_Model runs generated Upsert/UpsertBatch/Delete/Get/Query/Count/Optimize histories against a
// real vector store (temp directory, in-memory L2 cache) and a map model.
func TestC33_Model(t *testing.T) {
	rec := stats.For("C33").Meta("exploration",
		"state machine over vector.Open[T] (2-30 ids, dim 2-8, all usage modes, ingestion buffer on/off, all content sizes); non-trivial = a delete of a live id or a re-upsert precedes an Optimize; distinct by rendered history",
		"one goroutine; a fresh write transaction per session, never reused after Optimize (as documented)",
		"stored and query vectors are non-zero with |x| in {0} U [0.01,100] (cosine undefined / float32 underflow outside)",
		"ids inside one UpsertBatch are distinct",
		"which neighbours the centroid index returns is not asserted; Count is compared only when no tombstone can exist")
	rapid.Check(t, func(t *rapid.T) { runCase(t, rec) })
}

// TestReplay_C33 runs a replays/C33/replay-c33-*.json history ($VERIF_REPLAY) without rapid.
func TestReplay_C33(t *testing.T) {
	p := os.Getenv("VERIF_REPLAY")
	if p == "" {
		t.Skip("VERIF_REPLAY not set")
	}
	b, err := os.ReadFile(p)
	if err != nil {
		t.Fatalf("HARNESS-ERROR: %v", err)
	}
	var s script
	if err := json.Unmarshal(b, &s); err != nil {
		t.Fatalf("HARNESS-ERROR: %s is not a C33 history: %v", p, err)
	}
	runScript(t, s, false)
}
