package txh

import (
	"context"
	"fmt"
	"time"

	"github.com/sharedcode/sop"
)

func idsOfH(p []sop.RegistryPayload[sop.Handle]) string {
	n := 0
	for _, x := range p {
		n += len(x.IDs)
	}
	return fmt.Sprintf("%dh", n)
}
func idsOfU(p []sop.RegistryPayload[sop.UUID]) string {
	n := 0
	for _, x := range p {
		n += len(x.IDs)
	}
	return fmt.Sprintf("%did", n)
}

func (d *regDeco) note(method string, after bool, err error, hp []sop.RegistryPayload[sop.Handle], up []sop.RegistryPayload[sop.UUID]) {
	f := d.t.Env.OnRegistry
	if f == nil {
		return
	}
	ev := RegEvent{Txn: d.t.No, Method: method, After: after, Err: err}
	for _, p := range hp {
		for _, h := range p.IDs {
			ev.Handles = append(ev.Handles, h)
			ev.Tables = append(ev.Tables, p.RegistryTable)
		}
	}
	for _, p := range up {
		for _, id := range p.IDs {
			ev.IDs = append(ev.IDs, id)
			ev.Tables = append(ev.Tables, p.RegistryTable)
		}
	}
	f(ev)
}

// ---- Registry ----
type regDeco struct {
	t  *Txn
	in interface {
		sop.Registry
		Close() error
	}
}

func (d *regDeco) Close() error { return d.in.Close() }
func (d *regDeco) Get(ctx context.Context, p []sop.RegistryPayload[sop.UUID]) ([]sop.RegistryPayload[sop.Handle], error) {
	s, a := d.t.enter("Registry", "Get", idsOfU(p))
	if a.Err != nil {
		return nil, a.Err
	}
	r, err := d.in.Get(ctx, p)
	d.t.leave(s)
	return r, err
}
func (d *regDeco) Add(ctx context.Context, p []sop.RegistryPayload[sop.Handle]) error {
	s, a := d.t.enter("Registry", "Add", idsOfH(p))
	if a.Err != nil {
		return a.Err
	}
	d.note("Add", false, nil, p, nil)
	err := d.in.Add(ctx, p)
	d.note("Add", true, err, p, nil)
	d.t.leave(s)
	return err
}
func (d *regDeco) Update(ctx context.Context, p []sop.RegistryPayload[sop.Handle]) error {
	s, a := d.t.enter("Registry", "Update", idsOfH(p))
	if a.Err != nil {
		return a.Err
	}
	d.note("Update", false, nil, p, nil)
	err := d.in.Update(ctx, p)
	d.note("Update", true, err, p, nil)
	d.t.leave(s)
	return err
}
func (d *regDeco) UpdateNoLocks(ctx context.Context, allOrNothing bool, p []sop.RegistryPayload[sop.Handle]) error {
	m := "UpdateNoLocks"
	if allOrNothing {
		m = "UpdateNoLocksFlip"
	}
	s, a := d.t.enter("Registry", m, idsOfH(p))
	if a.Err != nil {
		return a.Err
	}
	d.note(m, false, nil, p, nil)
	err := d.in.UpdateNoLocks(ctx, allOrNothing, p)
	d.note(m, true, err, p, nil)
	d.t.leave(s)
	return err
}
func (d *regDeco) Remove(ctx context.Context, p []sop.RegistryPayload[sop.UUID]) error {
	s, a := d.t.enter("Registry", "Remove", idsOfU(p))
	if a.Err != nil {
		return a.Err
	}
	d.note("Remove", false, nil, nil, p)
	err := d.in.Remove(ctx, p)
	d.note("Remove", true, err, nil, p)
	d.t.leave(s)
	return err
}

// Replicate runs on a side goroutine of phase 2 (after the commit point): pass-through, never a hook site.
func (d *regDeco) Replicate(ctx context.Context, a, b, c, e []sop.RegistryPayload[sop.Handle]) error {
	return d.in.Replicate(ctx, a, b, c, e)
}

// ---- BlobStore ----
type blobDeco struct {
	t  *Txn
	in sop.BlobStore
}

func nblobsKV(p []sop.BlobsPayload[sop.KeyValuePair[sop.UUID, []byte]]) string {
	n := 0
	ids := ""
	for _, x := range p {
		n += len(x.Blobs)
		for _, b := range x.Blobs {
			if len(ids) < 120 {
				ids += " " + b.Key.String()[4:13]
			}
		}
	}
	return fmt.Sprintf("%db%s", n, ids)
}
func nblobsID(p []sop.BlobsPayload[sop.UUID]) string {
	n := 0
	ids := ""
	for _, x := range p {
		n += len(x.Blobs)
		for _, b := range x.Blobs {
			if len(ids) < 120 {
				ids += " " + b.String()[4:13]
			}
		}
	}
	return fmt.Sprintf("%db%s", n, ids)
}
func (d *blobDeco) GetOne(ctx context.Context, table string, id sop.UUID) ([]byte, error) {
	s, a := d.t.enter("BlobStore", "GetOne", "")
	if a.Err != nil {
		return nil, a.Err
	}
	r, err := d.in.GetOne(ctx, table, id)
	d.t.leave(s)
	return r, err
}
func (d *blobDeco) Add(ctx context.Context, p []sop.BlobsPayload[sop.KeyValuePair[sop.UUID, []byte]]) error {
	s, a := d.t.enter("BlobStore", "Add", nblobsKV(p))
	if a.Err != nil {
		return a.Err
	}
	err := d.in.Add(ctx, p)
	d.t.leave(s)
	return err
}
func (d *blobDeco) Update(ctx context.Context, p []sop.BlobsPayload[sop.KeyValuePair[sop.UUID, []byte]]) error {
	s, a := d.t.enter("BlobStore", "Update", nblobsKV(p))
	if a.Err != nil {
		return a.Err
	}
	err := d.in.Update(ctx, p)
	d.t.leave(s)
	return err
}
func (d *blobDeco) Remove(ctx context.Context, p []sop.BlobsPayload[sop.UUID]) error {
	s, a := d.t.enter("BlobStore", "Remove", nblobsID(p))
	if a.Err != nil {
		return a.Err
	}
	err := d.in.Remove(ctx, p)
	d.t.leave(s)
	return err
}

// ---- StoreRepository ----
type srDeco struct {
	t  *Txn
	in sop.StoreRepository
}

func (d *srDeco) Get(ctx context.Context, names ...string) ([]sop.StoreInfo, error) {
	s, a := d.t.enter("StoreRepository", "Get", fmt.Sprint(names))
	if a.Err != nil {
		return nil, a.Err
	}
	r, err := d.in.Get(ctx, names...)
	d.t.leave(s)
	return r, err
}
func (d *srDeco) GetWithTTL(ctx context.Context, ttl bool, dur time.Duration, names ...string) ([]sop.StoreInfo, error) {
	s, a := d.t.enter("StoreRepository", "GetWithTTL", fmt.Sprint(names))
	if a.Err != nil {
		return nil, a.Err
	}
	r, err := d.in.GetWithTTL(ctx, ttl, dur, names...)
	d.t.leave(s)
	return r, err
}
func (d *srDeco) GetAll(ctx context.Context) ([]string, error) {
	s, a := d.t.enter("StoreRepository", "GetAll", "")
	if a.Err != nil {
		return nil, a.Err
	}
	r, err := d.in.GetAll(ctx)
	d.t.leave(s)
	return r, err
}
func (d *srDeco) Add(ctx context.Context, stores ...sop.StoreInfo) error {
	s, a := d.t.enter("StoreRepository", "Add", "")
	if a.Err != nil {
		return a.Err
	}
	err := d.in.Add(ctx, stores...)
	d.t.leave(s)
	return err
}
func (d *srDeco) Remove(ctx context.Context, names ...string) error {
	s, a := d.t.enter("StoreRepository", "Remove", fmt.Sprint(names))
	if a.Err != nil {
		return a.Err
	}
	err := d.in.Remove(ctx, names...)
	d.t.leave(s)
	return err
}
func (d *srDeco) Update(ctx context.Context, stores []sop.StoreInfo) ([]sop.StoreInfo, error) {
	info := ""
	for _, x := range stores {
		info += fmt.Sprintf("%s%+d ", x.Name, x.CountDelta)
	}
	s, a := d.t.enter("StoreRepository", "Update", info)
	if a.Err != nil {
		return nil, a.Err
	}
	r, err := d.in.Update(ctx, stores)
	d.t.leave(s)
	return r, err
}

// Replicate runs on a side goroutine after the commit point: pass-through.
func (d *srDeco) Replicate(ctx context.Context, stores []sop.StoreInfo) error {
	return d.in.Replicate(ctx, stores)
}

// ---- L2 cache (as seen by the transaction manager) ----
type l2Deco struct {
	t *Txn
	sop.L2Cache
}

func keysOf(lk []*sop.LockKey) string { return fmt.Sprintf("%dk", len(lk)) }

func (d *l2Deco) Lock(ctx context.Context, dur time.Duration, lk []*sop.LockKey) (bool, sop.UUID, error) {
	s, a := d.t.enter("L2", "Lock", keysOf(lk))
	if a.Err != nil {
		return false, sop.NilUUID, a.Err
	}
	if a.False {
		return false, sop.NilUUID, nil
	}
	ok, id, err := d.L2Cache.Lock(ctx, dur, lk)
	if d.t.LockResult != nil {
		d.t.LockResult(ok && err == nil)
	}
	d.t.leave(s)
	return ok, id, err
}
func (d *l2Deco) DualLock(ctx context.Context, dur time.Duration, lk []*sop.LockKey) (bool, sop.UUID, error) {
	s, a := d.t.enter("L2", "DualLock", keysOf(lk))
	if a.Err != nil {
		return false, sop.NilUUID, a.Err
	}
	if a.False {
		return false, sop.NilUUID, nil
	}
	ok, id, err := d.L2Cache.DualLock(ctx, dur, lk)
	if d.t.LockResult != nil {
		d.t.LockResult(ok && err == nil)
	}
	d.t.leave(s)
	return ok, id, err
}
func (d *l2Deco) IsLocked(ctx context.Context, lk []*sop.LockKey) (bool, error) {
	s, a := d.t.enter("L2", "IsLocked", keysOf(lk))
	if a.Err != nil {
		return false, a.Err
	}
	if a.False {
		return false, nil
	}
	ok, err := d.L2Cache.IsLocked(ctx, lk)
	d.t.leave(s)
	return ok, err
}
func (d *l2Deco) Unlock(ctx context.Context, lk []*sop.LockKey) error {
	s, a := d.t.enter("L2", "Unlock", keysOf(lk))
	if a.Err != nil {
		return a.Err
	}
	err := d.L2Cache.Unlock(ctx, lk)
	d.t.leave(s)
	return err
}
func (d *l2Deco) SetStruct(ctx context.Context, key string, v interface{}, exp time.Duration) error {
	s, a := d.t.enter("L2", "SetStruct", "")
	if a.Err != nil {
		return a.Err
	}
	err := d.L2Cache.SetStruct(ctx, key, v, exp)
	d.t.leave(s)
	return err
}
func (d *l2Deco) GetStruct(ctx context.Context, key string, target interface{}) (bool, error) {
	s, a := d.t.enter("L2", "GetStruct", "")
	if a.Err != nil {
		return false, a.Err
	}
	ok, err := d.L2Cache.GetStruct(ctx, key, target)
	d.t.leave(s)
	return ok, err
}
func (d *l2Deco) GetStructEx(ctx context.Context, key string, target interface{}, exp time.Duration) (bool, error) {
	s, a := d.t.enter("L2", "GetStructEx", "")
	if a.Err != nil {
		return false, a.Err
	}
	ok, err := d.L2Cache.GetStructEx(ctx, key, target, exp)
	d.t.leave(s)
	return ok, err
}
func (d *l2Deco) GetStructs(ctx context.Context, keys []string, targets []interface{}, exp time.Duration) ([]bool, error) {
	s, a := d.t.enter("L2", "GetStructs", "")
	if a.Err != nil {
		return nil, a.Err
	}
	ok, err := d.L2Cache.GetStructs(ctx, keys, targets, exp)
	d.t.leave(s)
	return ok, err
}
func (d *l2Deco) SetStructs(ctx context.Context, keys []string, values []interface{}, exp time.Duration) error {
	s, a := d.t.enter("L2", "SetStructs", "")
	if a.Err != nil {
		return a.Err
	}
	err := d.L2Cache.SetStructs(ctx, keys, values, exp)
	d.t.leave(s)
	return err
}
func (d *l2Deco) Delete(ctx context.Context, keys []string) (bool, error) {
	s, a := d.t.enter("L2", "Delete", "")
	if a.Err != nil {
		return false, a.Err
	}
	ok, err := d.L2Cache.Delete(ctx, keys)
	d.t.leave(s)
	return ok, err
}

// ---- Transaction log + priority log ----
type tlDeco struct {
	t  *Txn
	in sop.TransactionLog
	pl *plDeco
}

func (d *tlDeco) PriorityLog() sop.TransactionPriorityLog { return d.pl }
func (d *tlDeco) Add(ctx context.Context, tid sop.UUID, fn int, payload []byte) error {
	s, a := d.t.enter("TLog", "Add", fmt.Sprintf("step%d", fn))
	if a.Err != nil {
		return a.Err
	}
	err := d.in.Add(ctx, tid, fn, payload)
	d.t.leave(s)
	return err
}
func (d *tlDeco) Remove(ctx context.Context, tid sop.UUID) error {
	s, a := d.t.enter("TLog", "Remove", "")
	if a.Err != nil {
		return a.Err
	}
	err := d.in.Remove(ctx, tid)
	d.t.leave(s)
	return err
}
func (d *tlDeco) GetOne(ctx context.Context) (sop.UUID, string, []sop.KeyValuePair[int, []byte], error) {
	return d.in.GetOne(ctx)
}
func (d *tlDeco) GetOneOfHour(ctx context.Context, hour string) (sop.UUID, []sop.KeyValuePair[int, []byte], error) {
	return d.in.GetOneOfHour(ctx, hour)
}
func (d *tlDeco) NewUUID() sop.UUID { return d.in.NewUUID() }

type plDeco struct {
	t  *Txn
	in sop.TransactionPriorityLog
}

func (d *plDeco) IsEnabled() bool { return d.in.IsEnabled() }
func (d *plDeco) Add(ctx context.Context, tid sop.UUID, payload []byte) error {
	s, a := d.t.enter("PLog", "Add", "")
	if a.Err != nil {
		return a.Err
	}
	err := d.in.Add(ctx, tid, payload)
	d.t.leave(s)
	return err
}

// Remove is called from the main goroutine in rollback paths and from a side goroutine in phase 2
// (after the commit point). It is a hook site only while the transaction is not in its phase-2
// side tasks; the Txn flag below is set by the harness for schedulers that need pass-through.
func (d *plDeco) Remove(ctx context.Context, tid sop.UUID) error {
	if d.t.PassThroughPLogRemove.Load() {
		return d.in.Remove(ctx, tid)
	}
	s, a := d.t.enter("PLog", "Remove", "")
	if a.Err != nil {
		return a.Err
	}
	err := d.in.Remove(ctx, tid)
	d.t.leave(s)
	return err
}
func (d *plDeco) Get(ctx context.Context, tid sop.UUID) ([]sop.RegistryPayload[sop.Handle], error) {
	return d.in.Get(ctx, tid)
}
func (d *plDeco) GetBatch(ctx context.Context, n int) ([]sop.KeyValuePair[sop.UUID, []sop.RegistryPayload[sop.Handle]], error) {
	return d.in.GetBatch(ctx, n)
}
func (d *plDeco) ProcessNewer(ctx context.Context, f func(tid sop.UUID, payload []sop.RegistryPayload[sop.Handle]) error) error {
	return d.in.ProcessNewer(ctx, f)
}
func (d *plDeco) LogCommitChanges(ctx context.Context, stores []sop.StoreInfo, a, b, c, e []sop.RegistryPayload[sop.Handle]) error {
	return d.in.LogCommitChanges(ctx, stores, a, b, c, e)
}
