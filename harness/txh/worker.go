package txh

import (
	"encoding/json"
	"fmt"
	"os"
	"os/exec"
	"time"

	"github.com/sharedcode/sop"
)

// Job is what a child process is asked to do on a database directory.
type Job struct {
	Kind    string      `json:"kind"` // dump
	Dir     string      `json:"dir"`
	HashMod int         `json:"hash_mod"`
	Stores  []StoreOpts `json:"stores"`
	Out     string      `json:"out"`
	// NowOffsetSec advances sop.Now in the child (recovery ages) without touching file mtimes.
	NowOffsetSec int64 `json:"now_offset_sec,omitempty"`
}

// JobResult is what the child writes to Job.Out.
type JobResult struct {
	Err   string      `json:"err,omitempty"`
	Dumps []StoreDump `json:"dumps,omitempty"`
}

// RunJob re-executes the current test binary as a worker (`-test.run=^TestWorker$`), a brand-new OS
// process with empty caches and fresh globals.
func RunJob(j Job) (*JobResult, error) {
	f, err := os.CreateTemp("", "job*.json")
	if err != nil {
		return nil, fmt.Errorf("HARNESS-ERROR %w", err)
	}
	defer os.Remove(f.Name())
	j.Out = f.Name() + ".out"
	defer os.Remove(j.Out)
	b, _ := json.Marshal(j)
	f.Write(b)
	f.Close()
	cmd := exec.Command(os.Args[0], "-test.run=^TestWorker$", "-test.timeout=120s")
	cmd.Env = append(os.Environ(), "VERIF_JOB="+f.Name(), "VERIF_STATS=")
	out, err := cmd.CombinedOutput()
	rb, rerr := os.ReadFile(j.Out)
	if rerr != nil {
		return nil, fmt.Errorf("HARNESS-ERROR worker wrote no result (exit: %v): %s", err, tailOf(string(out), 2000))
	}
	var r JobResult
	if err := json.Unmarshal(rb, &r); err != nil {
		return nil, fmt.Errorf("HARNESS-ERROR worker result: %w", err)
	}
	return &r, nil
}

func tailOf(s string, n int) string {
	if len(s) > n {
		return s[len(s)-n:]
	}
	return s
}

// WorkerMain is called from each test package's TestWorker; it returns false when the process is
// not a worker.
func WorkerMain() bool {
	jf := os.Getenv("VERIF_JOB")
	if jf == "" {
		return false
	}
	b, err := os.ReadFile(jf)
	if err != nil {
		os.Exit(3)
	}
	var j Job
	if err := json.Unmarshal(b, &j); err != nil {
		os.Exit(3)
	}
	if j.NowOffsetSec != 0 {
		off := time.Duration(j.NowOffsetSec) * time.Second
		sop.Now = func() time.Time { return time.Now().Add(off) }
	}
	var r JobResult
	e := OpenEnv(j.Dir, j.HashMod)
	switch j.Kind {
	case "dump":
		d, err := e.Dump(j.Stores, sop.ForReading)
		if err != nil {
			r.Err = err.Error()
		}
		r.Dumps = d
	default:
		r.Err = "unknown job kind " + j.Kind
	}
	ob, _ := json.Marshal(r)
	os.WriteFile(j.Out, ob, 0o644)
	return true
}
