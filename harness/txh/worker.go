package txh

import (
	"encoding/json"
	"fmt"
	"os"
	"os/exec"
	"time"

	"github.com/sharedcode/sop"
	"github.com/sharedcode/sop/common"
)

// Job is what a child process is asked to do on a database directory.
type Job struct {
	Kind    string      `json:"kind"` // dump
	Dir     string      `json:"dir"`
	HashMod int         `json:"hash_mod"`
	Stores  []StoreOpts `json:"stores"`
	Out     string      `json:"out"`
	// NowOffsetSec advances sop.Now in the child (recovery ages) without touching file mtimes.
	NowOffsetSec int64 `json:"now_offset_sec,omitempty"`
	// victim: run History.Txns[:Victim] then Txns[Victim] and die at backend call CrashK of its Commit
	// (before the call, or right after it returned when CrashAfter).
	History    *History `json:"history,omitempty"`
	Victim     int      `json:"victim,omitempty"`
	CrashK     int      `json:"crash_k,omitempty"`
	CrashAfter bool     `json:"crash_after,omitempty"`
	// restart: number of warm-up write transactions before the final dump, and the probe key base
	Warmups int `json:"warmups,omitempty"`
	// Maintenance: every later write transaction (and one before the first reader) runs SOP's maintenance pass
	// through the verif hook once its stores are open - what Begin is meant to do (see C09's recorded finding).
	Maintenance bool `json:"maintenance,omitempty"`
}

// JobResult is what the child writes to Job.Out.
type JobResult struct {
	Err   string      `json:"err,omitempty"`
	Dumps []StoreDump `json:"dumps,omitempty"`
	// victim
	Pre        []*Model `json:"pre,omitempty"`
	Post       []*Model `json:"post,omitempty"`
	CommitCall int      `json:"commit_calls,omitempty"` // dry run (CrashK < 0): calls made by the commit
	Sites      []string `json:"sites,omitempty"`
	CrashSite  string   `json:"crash_site,omitempty"`
	Committed  bool     `json:"committed,omitempty"`
	// restart
	FirstDumpErr string      `json:"first_dump_err,omitempty"`
	FirstDumps   []StoreDump `json:"first_dumps,omitempty"`
	WarmupErrs   []string    `json:"warmup_errs,omitempty"`
	ProbeErr     string      `json:"probe_err,omitempty"`
	RetryErr     string      `json:"retry_err,omitempty"`
}

// RunJob re-executes the current test binary as a worker (`-test.run=^TestWorker$`), a brand-new OS
// process with empty caches and fresh globals.
func RunJob(j Job) (*JobResult, error) {
	f, err := os.CreateTemp("", "job*.json")
	if err != nil {
		return nil, fmt.Errorf("HARNESS-ERROR %w", err)
	}
	defer os.Remove(f.Name())
	j.Out = f.Name() + ".out"
	defer os.Remove(j.Out)
	b, _ := json.Marshal(j)
	f.Write(b)
	f.Close()
	cmd := exec.Command(os.Args[0], "-test.run=^TestWorker$", "-test.timeout=120s")
	cmd.Env = append(os.Environ(), "VERIF_JOB="+f.Name(), "VERIF_STATS=")
	out, err := cmd.CombinedOutput()
	if os.Getenv("VERIF_WORKER_LOG") != "" {
		os.WriteFile(j.Dir+"/worker.log", out, 0o644)
	}
	rb, rerr := os.ReadFile(j.Out)
	if rerr != nil {
		return nil, fmt.Errorf("HARNESS-ERROR worker wrote no result (exit: %v): %s", err, tailOf(string(out), 2000))
	}
	_ = out
	var r JobResult
	if err := json.Unmarshal(rb, &r); err != nil {
		return nil, fmt.Errorf("HARNESS-ERROR worker result: %w", err)
	}
	return &r, nil
}

func tailOf(s string, n int) string {
	if len(s) > n {
		return s[len(s)-n:]
	}
	return s
}

// WorkerMain is called from each test package's TestWorker; it returns false when the process is
// not a worker.
func WorkerMain() bool {
	jf := os.Getenv("VERIF_JOB")
	if jf == "" {
		return false
	}
	b, err := os.ReadFile(jf)
	if err != nil {
		os.Exit(3)
	}
	var j Job
	if err := json.Unmarshal(b, &j); err != nil {
		os.Exit(3)
	}
	if j.NowOffsetSec != 0 {
		off := time.Duration(j.NowOffsetSec) * time.Second
		sop.Now = func() time.Time { return time.Now().Add(off) }
	}
	var r JobResult
	e := OpenEnv(j.Dir, j.HashMod)
	switch j.Kind {
	case "dump":
		d, err := e.Dump(j.Stores, sop.ForReading)
		if err != nil {
			r.Err = err.Error()
		}
		r.Dumps = d
	case "victim":
		runVictimJob(e, j, &r)
	case "restart":
		runRestartJob(e, j, &r)
	default:
		r.Err = "unknown job kind " + j.Kind
	}
	ob, _ := json.Marshal(r)
	os.WriteFile(j.Out, ob, 0o644)
	return true
}

func flushResult(j Job, r *JobResult) {
	ob, _ := json.Marshal(r)
	os.WriteFile(j.Out, ob, 0o644)
}

// runVictimJob replays the committed prefix and then the victim, which exits the process (no cleanup, no
// deferred functions) at the planned backend call of its Commit. With CrashK < 0 it is a dry run.
func runVictimJob(e *Env, j Job, r *JobResult) {
	h := j.History
	SeedUUIDs(h.UUIDSeed)
	if err := e.Setup(h.Stores); err != nil {
		r.Err = "HARNESS-ERROR setup: " + err.Error()
		return
	}
	models := make([]*Model, len(h.Stores))
	for i, s := range h.Stores {
		models[i] = &Model{Unique: s.Unique}
	}
	for i := 0; i < j.Victim; i++ {
		var res TxnResult
		models, res = e.RunTxn(h.Txns[i], h.Stores, models, RunOpts{})
		if res.OpErr != nil || res.Mismatch != "" || res.CommitErr != nil {
			r.Err = fmt.Sprintf("HARNESS-ERROR prefix txn %d: %v %s %v", i+1, res.OpErr, res.Mismatch, res.CommitErr)
			return
		}
	}
	r.Pre = models
	before := 0
	var tx *Txn
	_, res := e.RunTxn(h.Txns[j.Victim], h.Stores, models, RunOpts{BeforeCommitModels: func(t *Txn, post []*Model) {
		tx = t
		r.Post = post
		if h.Rival != nil {
			rm, rres := e.RunTxn(*h.Rival, h.Stores, models, RunOpts{})
			if rres.OpErr != nil || rres.Mismatch != "" || rres.CommitErr != nil {
				r.Err = fmt.Sprintf("HARNESS-ERROR rival: %v %s %v", rres.OpErr, rres.Mismatch, rres.CommitErr)
				flushResult(j, r)
				os.Exit(3)
			}
			// the rival's keys are nobody else's: they are part of the state before and after the victim
			pre := make([]*Model, len(models))
			for i := range models {
				pre[i] = models[i].Clone()
				r.Post[i] = r.Post[i].Clone()
				for _, it := range rm[i].Items {
					if !models[i].Has(it.K) {
						pre[i].Add(it.K, it.V)
						r.Post[i].Add(it.K, it.V)
					}
				}
			}
			r.Pre = pre
		}
		before = t.Calls()
		flushResult(j, r)
		if j.CrashK < 0 {
			return
		}
		t.PassThroughPLogRemove.Store(true)
		t.SetHook(func(s Site) Action {
			if s.N-before == j.CrashK && s.After == j.CrashAfter {
				r.CrashSite = s.String()
				flushResult(j, r)
				os.Exit(137)
			}
			return Action{}
		})
	}})
	r.Committed = res.Committed
	if res.OpErr != nil || res.Mismatch != "" {
		r.Err = fmt.Sprintf("victim ops: %v %s", res.OpErr, res.Mismatch)
	}
	if tx != nil {
		r.CommitCall = tx.Calls() - before
		for _, s := range tx.Trace[before:] {
			r.Sites = append(r.Sites, s.Name())
		}
	}
}

// runRestartJob is the process that comes up after the crash: public API only.
// maintenanceTxn: a write transaction that opens the stores, runs the maintenance pass and commits nothing.
func maintenanceTxn(e *Env, stores []StoreOpts) string {
	t, err := e.NewTxn(TxnOptions{Mode: sop.ForWriting, MaxTime: 20 * time.Second})
	if err != nil {
		return err.Error()
	}
	if err := t.Tx.Begin(Ctx); err != nil {
		return "Begin: " + err.Error()
	}
	for _, so := range stores {
		if _, err := OpenBtree[int, string](t, so.Name); err != nil {
			return "Open: " + err.Error()
		}
	}
	if ct, ok := t.Tx.GetPhasedTransaction().(*common.Transaction); ok {
		ct.RunMaintenanceForVerif(Ctx)
	} else {
		return "HARNESS-ERROR no common.Transaction behind the transaction"
	}
	if t.Tx.HasBegun() {
		if err := t.Tx.Commit(Ctx); err != nil {
			return "Commit: " + err.Error()
		}
	}
	return ""
}

func runRestartJob(e *Env, j Job, r *JobResult) {
	stores := j.Stores
	if j.Maintenance {
		if msg := maintenanceTxn(e, stores); msg != "" {
			r.WarmupErrs = append(r.WarmupErrs, "maintenance: "+msg)
		}
	}
	d, err := e.Dump(stores, sop.ForReading)
	if err != nil {
		r.FirstDumpErr = err.Error()
	}
	r.FirstDumps = d
	// later transactions: each Begin gives SOP's maintenance a chance to run
	for w := 0; w < j.Warmups; w++ {
		t, err := e.NewTxn(TxnOptions{Mode: sop.ForWriting, MaxTime: 20 * time.Second})
		if err != nil {
			r.WarmupErrs = append(r.WarmupErrs, err.Error())
			continue
		}
		if err := t.Tx.Begin(Ctx); err != nil {
			r.WarmupErrs = append(r.WarmupErrs, "Begin: "+err.Error())
			continue
		}
		for _, so := range stores {
			if _, err := OpenBtree[int, string](t, so.Name); err != nil {
				r.WarmupErrs = append(r.WarmupErrs, "Open: "+err.Error())
			}
		}
		if j.Maintenance && t.Tx.HasBegun() {
			if ct, ok := t.Tx.GetPhasedTransaction().(*common.Transaction); ok {
				ct.RunMaintenanceForVerif(Ctx)
			}
		}
		if t.Tx.HasBegun() {
			if err := t.Tx.Commit(Ctx); err != nil {
				r.WarmupErrs = append(r.WarmupErrs, "Commit: "+err.Error())
			}
		}
	}
	d, err = e.Dump(stores, sop.ForReading)
	if err != nil {
		r.Err = "dump after restart: " + err.Error()
		return
	}
	r.Dumps = d
	// the victim's changes again, without faults: nothing it left behind may block them
	if j.History != nil {
		models := make([]*Model, len(stores))
		for i := range stores {
			models[i] = &Model{Unique: stores[i].Unique, Items: append([]KV{}, d[i].Items...)}
		}
		p := j.History.Txns[j.Victim]
		t0 := time.Now()
		var res TxnResult
		func() {
			// a panic inside SOP (the tree the recovery left behind) is a result, not the end of the worker
			defer func() {
				if p := recover(); p != nil {
					res.OpErr = fmt.Errorf("PANIC inside SOP: %v", p)
				}
			}()
			_, res = e.RunTxn(p, stores, models, RunOpts{MaxTime: 8 * time.Second})
		}()
		if res.OpErr != nil {
			r.RetryErr = "ops: " + res.OpErr.Error()
		} else if res.CommitErr != nil {
			r.RetryErr = fmt.Sprintf("commit after %.1fs: %v", time.Since(t0).Seconds(), res.CommitErr)
		}
	}
	d2, err := e.Dump(stores, sop.ForReading)
	if err != nil {
		r.ProbeErr = "dump after the retry: " + err.Error()
		return
	}
	_ = d2
}
