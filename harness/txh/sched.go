package txh

import (
	"context"
	"fmt"
	"math/rand"
	"runtime/debug"
	"strings"
	"sync"
	"time"

	"github.com/sharedcode/sop"
)

// Sched serialises several transactions: exactly one participant runs at a time and control
// can only change hands at a decorated backend call (a yield point). The order is taken from a
// generated schedule, so a failing interleaving shrinks and replays.
type Sched struct {
	mu       sync.Mutex
	cond     *sync.Cond
	n        int
	current  int // participant holding the token, -1 = nobody
	done     []bool
	parked   []bool
	schedule []int
	pos      int
	rr       int
	Switches int
	Yields   int
	Log      []string
	// spins counts consecutive refused lock attempts per participant (de-prioritised while > 0 and
	// somebody else can run): keeps a spinner from being picked for ever while the holder is parked.
	spins    []int
	deadline time.Time
	TimedOut bool
	// GateCommits: a participant may start its Commit only while no other participant is in the middle
	// of its operations (has made a backend call, has not reached its own Commit yet). Used only when
	// the 'inconsistent snapshot' finding is listed, to keep searching behind it.
	GateCommits bool
	midOps      []bool
	commitPhase []bool
	committing  []bool // passed the commit gate, Commit/Rollback is running
	Gated       int
	// Strict: schedule entries name participants; an entry whose participant cannot run (finished, not yet
	// parked) is skipped instead of being mapped onto the remaining ones. Lets a generator write directed
	// schedules ("V starts its commit, then B runs to completion, then V continues, then C ...").
	Strict bool
	// Directed: a list of segments "run participant P until it is about to make a backend call whose name contains
	// Until (or for N calls, or to completion)"; replaces schedule while segments remain. A segment whose participant
	// is finished, or is spinning on a refused lock while somebody calm can run, is dropped.
	Directed []Seg
	segIdx   int
	segSteps int
	pending  []string
	// Timeline is the execution order of the backend calls (who, which call), recorded when the token is granted.
	Timeline []Step
}

// Seg is one segment of a directed schedule.
type Seg struct {
	P     int
	Until string // stop before a call whose name contains this ("" = no marker)
	N     int    // stop after N calls (0 = no bound)
}

func (g Seg) String() string {
	switch {
	case g.Until != "" && g.N > 0:
		return fmt.Sprintf("p%d->%s|%d", g.P, g.Until, g.N)
	case g.Until != "":
		return fmt.Sprintf("p%d->%s", g.P, g.Until)
	case g.N > 0:
		return fmt.Sprintf("p%dx%d", g.P, g.N)
	}
	return fmt.Sprintf("p%d->end", g.P)
}

// Step is one executed backend call.
type Step struct {
	P    int
	Site string
}

// OthersMutatedRegistryDuringLastMerge reports whether, after participant id's last refetch-and-merge pass
// began (its last StoreRepository.GetWithTTL), another participant executed a registry write: the pass then
// navigated a mixture of old and new nodes (the recorded 'inconsistent snapshot' finding).
func (s *Sched) OthersMutatedRegistryDuringLastMerge(id int) bool {
	start := -1
	for i, st := range s.Timeline {
		if st.P == id && strings.Contains(st.Site, "StoreRepository.GetWithTTL") {
			start = i
		}
	}
	if start < 0 {
		return false
	}
	for _, st := range s.Timeline[start:] {
		if st.P != id && strings.Contains(st.Site, "Registry.") && !strings.Contains(st.Site, "Registry.Get") {
			return true
		}
	}
	return false
}

// NewSched creates a scheduler for n participants.
func NewSched(n int, schedule []int, budget time.Duration) *Sched {
	s := &Sched{n: n, current: -1, done: make([]bool, n), parked: make([]bool, n), schedule: schedule, spins: make([]int, n), midOps: make([]bool, n), commitPhase: make([]bool, n), committing: make([]bool, n), pending: make([]string, n)}
	s.cond = sync.NewCond(&s.mu)
	s.deadline = time.Now().Add(budget)
	return s
}

func (s *Sched) pick(self int) int {
	var runnable []int
	for i := 0; i < s.n; i++ {
		if !s.done[i] && (s.parked[i] || i == self) {
			runnable = append(runnable, i)
		}
	}
	if len(runnable) == 0 {
		return -1
	}
	// prefer participants that are not spinning on a refused lock
	var calm []int
	for _, i := range runnable {
		if s.spins[i] == 0 {
			calm = append(calm, i)
		}
	}
	cands := runnable
	if len(calm) > 0 {
		cands = calm
	}
	for s.segIdx < len(s.Directed) {
		g := s.Directed[s.segIdx]
		ok := false
		for _, i := range cands {
			if i == g.P {
				ok = true
			}
		}
		atMarker := g.Until != "" && s.segSteps > 0 && ok && strings.Contains(s.pending[g.P], g.Until)
		if !ok || atMarker || (g.N > 0 && s.segSteps >= g.N) {
			s.segIdx++
			s.segSteps = 0
			continue
		}
		s.segSteps++
		return g.P
	}
	if s.Strict {
		for s.pos < len(s.schedule) {
			want := s.schedule[s.pos]
			s.pos++
			for _, i := range cands {
				// a participant spinning on a refused lock while somebody calm can run is skipped (its entry is
				// consumed): "run X until it is finished or blocked"
				if i == want {
					return i
				}
			}
		}
	} else if s.pos < len(s.schedule) {
		c := cands[s.schedule[s.pos]%len(cands)]
		s.pos++
		return c
	}
	// schedule exhausted: keep running the current one unless it spins, then round robin
	if self >= 0 && !s.done[self] && s.spins[self] == 0 {
		for _, i := range cands {
			if i == self {
				return self
			}
		}
	}
	s.rr++
	return cands[s.rr%len(cands)]
}

// yield is called by participant id at a yield point (and at start).
func (s *Sched) yield(id int, what string) {
	s.mu.Lock()
	defer s.mu.Unlock()
	s.Yields++
	s.parked[id] = true
	s.pending[id] = what
	if s.current == id || s.current == -1 {
		next := s.pick(id)
		if next != s.current && s.current != -1 {
			s.Switches++
		}
		s.current = next
		if len(s.Log) < 4000 {
			s.Log = append(s.Log, fmt.Sprintf("p%d@%s->p%d", id, what, next))
		}
		s.cond.Broadcast()
	}
	for s.current != id {
		if time.Now().After(s.deadline) {
			s.TimedOut = true
			// let everybody run free so the case can end; the caller discards it
			s.current = id
			break
		}
		s.waitWithTimeout()
	}
	s.parked[id] = false
	if len(s.Timeline) < 50000 {
		s.Timeline = append(s.Timeline, Step{id, what})
	}
}

func (s *Sched) waitWithTimeout() {
	// cond.Wait with a wake-up so the deadline is noticed
	t := time.AfterFunc(200*time.Millisecond, func() { s.cond.Broadcast() })
	s.cond.Wait()
	t.Stop()
}

func (s *Sched) finish(id int) {
	s.mu.Lock()
	defer s.mu.Unlock()
	s.done[id] = true
	s.midOps[id] = false
	s.parked[id] = false
	if s.current == id {
		s.current = s.pick(-1)
		s.cond.Broadcast()
	}
}

// OpsDone is called by participant id when its operations are done (it may still pause before its Commit).
func (s *Sched) OpsDone(id int) {
	s.mu.Lock()
	s.midOps[id] = false
	s.commitPhase[id] = true
	s.mu.Unlock()
}

// EnterCommit is called by participant id right before it calls Commit/Rollback.
func (s *Sched) EnterCommit(id int) {
	s.OpsDone(id)
	if !s.GateCommits {
		return
	}
	for {
		s.mu.Lock()
		busy := false
		for i := 0; i < s.n; i++ {
			if i != id && s.midOps[i] && !s.done[i] {
				busy = true
			}
		}
		if busy {
			s.Gated++
		}
		s.mu.Unlock()
		if !busy || s.TimedOut {
			s.mu.Lock()
			s.committing[id] = true
			s.mu.Unlock()
			return
		}
		s.yieldTo(id, "commit-gate")
	}
}

// yieldTo parks id and hands the token to somebody else (round robin), used by the commit gate.
func (s *Sched) yieldTo(id int, what string) {
	s.yieldToWhere(id, func(c int) bool { return s.midOps[c] })
}

func (s *Sched) yieldToWhere(id int, want func(c int) bool) bool {
	s.mu.Lock()
	defer s.mu.Unlock()
	s.parked[id] = true
	next := -1
	for k := 1; k <= s.n; k++ {
		c := (id + k) % s.n
		if c != id && !s.done[c] && s.parked[c] && want(c) {
			next = c
			break
		}
	}
	if next == -1 {
		s.parked[id] = false
		return false
	}
	s.current = next
	s.cond.Broadcast()
	for s.current != id {
		if time.Now().After(s.deadline) {
			s.TimedOut = true
			s.current = id
			break
		}
		s.waitWithTimeout()
	}
	s.parked[id] = false
	return true
}

// HookFor returns the hook to install on participant id's transaction.
func (s *Sched) HookFor(id int) Hook {
	return func(site Site) Action {
		if site.After {
			// result-aware bookkeeping: refused locks mark a spinner
			return Action{}
		}
		s.mu.Lock()
		if !s.inCommit(id) && s.GateCommits && !s.midOps[id] {
			// the other half of the commit gate: a participant makes the first call of its operations only while
			// nobody's Commit is running (its later node fetches would otherwise straddle that commit)
			for {
				busy := false
				for i := 0; i < s.n; i++ {
					if i != id && s.committing[i] && !s.done[i] {
						busy = true
					}
				}
				if !busy || s.TimedOut {
					break
				}
				s.Gated++
				s.mu.Unlock()
				// (a committer that is not spinning on a refused lock first: it is the one the others wait for)
				handed := s.yieldToWhere(id, func(c int) bool { return s.committing[c] && s.spins[c] == 0 }) ||
					s.yieldToWhere(id, func(c int) bool { return s.committing[c] })
				s.mu.Lock()
				if !handed {
					break
				}
			}
		}
		if !s.inCommit(id) {
			s.midOps[id] = true
		}
		s.mu.Unlock()
		s.yield(id, site.Name())
		return Action{}
	}
}

func (s *Sched) inCommit(id int) bool { return s.commitPhase != nil && s.commitPhase[id] }

// NoteLockResult lets the participant report a refused/granted node lock (spinner heuristic).
func (s *Sched) NoteLockResult(id int, ok bool) {
	s.mu.Lock()
	if ok {
		s.spins[id] = 0
	} else {
		s.spins[id]++
	}
	s.mu.Unlock()
}

// Run starts fn(i) for every participant under the scheduler and waits for all of them.
func (s *Sched) Run(fn func(i int)) {
	var wg sync.WaitGroup
	for i := 0; i < s.n; i++ {
		wg.Add(1)
		go func(i int) {
			defer wg.Done()
			defer s.finish(i)
			s.park(i)
			fn(i)
		}(i)
	}
	// start barrier: the first pick is made only when every participant is parked, so the
	// interleaving never depends on goroutine start-up order
	s.mu.Lock()
	for {
		all := true
		for i := 0; i < s.n; i++ {
			if !s.parked[i] {
				all = false
			}
		}
		if all {
			break
		}
		s.waitWithTimeout()
	}
	s.current = s.pick(-1)
	s.cond.Broadcast()
	s.mu.Unlock()
	wg.Wait()
}

// park blocks participant id until it is picked for the first time.
func (s *Sched) park(id int) {
	s.mu.Lock()
	defer s.mu.Unlock()
	s.parked[id] = true
	s.cond.Broadcast()
	for s.current != id {
		if time.Now().After(s.deadline) {
			s.TimedOut = true
			s.current = id
			break
		}
		s.waitWithTimeout()
	}
	s.parked[id] = false
}

// ---- concurrent programs ------------------------------------------------------------------

// Obs is what one operation of a concurrent program observed through the public API.
type Obs struct {
	Op    Op     `json:"op"`
	OK    bool   `json:"ok"`              // boolean result of the call (found / added / updated / removed)
	Read  string `json:"read,omitempty"`  // value read (get, rmw)
	Wrote string `json:"wrote,omitempty"` // value written
	Err   string `json:"err,omitempty"`
}

// CResult is the outcome of one concurrent participant.
type CResult struct {
	Prog      TxnProg
	Obs       []Obs
	OpErr     error
	CommitErr error
	Committed bool
	Trace     []Site
	Wall      time.Duration
	Panicked  bool
}

// Concurrent op kinds (unique stores): get rmw update add addIfNotExist upsert remove scan count.
func observeOp(b Store, op Op) (Obs, error) {
	o := Obs{Op: op}
	val := MakeValue(op.Tag, op.Size)
	switch op.Kind {
	case "get", "rmw":
		ok, err := b.Find(Ctx, op.K, false)
		if err != nil {
			return o, err
		}
		o.OK = ok
		if !ok {
			return o, nil
		}
		v, err := b.GetCurrentValue(Ctx)
		if err != nil {
			return o, err
		}
		o.Read = v
		if op.Kind == "rmw" {
			ok, err := b.UpdateCurrentValue(Ctx, val)
			if err != nil {
				return o, err
			}
			if ok {
				o.Wrote = val
			}
			o.OK = ok
		}
	case "update":
		ok, err := b.Update(Ctx, op.K, val)
		if err != nil {
			return o, err
		}
		o.OK = ok
		if ok {
			o.Wrote = val
		}
	case "add":
		ok, err := b.Add(Ctx, op.K, val)
		if err != nil {
			return o, err
		}
		o.OK = ok
		if ok {
			o.Wrote = val
		}
	case "addIfNotExist":
		ok, err := b.AddIfNotExist(Ctx, op.K, val)
		if err != nil {
			return o, err
		}
		o.OK = ok
		if ok {
			o.Wrote = val
		}
	case "upsert":
		ok, err := b.Upsert(Ctx, op.K, val)
		if err != nil {
			return o, err
		}
		o.OK = ok
		if ok {
			o.Wrote = val
		}
	case "remove":
		ok, err := b.Remove(Ctx, op.K)
		if err != nil {
			return o, err
		}
		o.OK = ok
	case "rmv": // read the value, then remove the item the cursor is on
		ok, err := b.Find(Ctx, op.K, false)
		if err != nil {
			return o, err
		}
		o.OK = ok
		if !ok {
			return o, nil
		}
		v, err := b.GetCurrentValue(Ctx)
		if err != nil {
			return o, err
		}
		o.Read = v
		ok, err = b.RemoveCurrentItem(Ctx)
		if err != nil {
			return o, err
		}
		o.OK = ok
	case "updateKey": // key-only update: the value is neither fetched nor changed
		ok, err := b.UpdateKey(Ctx, op.K)
		if err != nil {
			return o, err
		}
		o.OK = ok
	case "count":
		o.OK = true
		o.Read = fmt.Sprint(b.Count())
	default:
		return o, fmt.Errorf("HARNESS-ERROR unknown concurrent op %q", op.Kind)
	}
	return o, nil
}

// ConcOpts configure RunConcurrent.
type ConcOpts struct {
	MaxTime time.Duration
	Budget  time.Duration // wall budget of the whole case; exceeded => Sched.TimedOut (case discarded)
	// FreeRunning: no scheduler, real goroutines (C15, C36).
	FreeRunning bool
	// Create: participants open stores with NewBtree (create race, C05/C12).
	Create bool
	// GateCommits: see Sched.GateCommits.
	GateCommits bool
	// Strict: see Sched.Strict.
	Strict bool
	// Directed: see Sched.Directed.
	Directed []Seg
	// Fault is asked at every backend call of participant i (after the scheduler let it run): a non-zero action is
	// injected instead of the call.
	Fault func(i int, s Site) Action
	// OnTxn is called with every participant's transaction before Begin (extra hooks).
	OnTxn func(i int, t *Txn)
}

// RunConcurrent runs the programs as concurrent transactions under the schedule.
func (e *Env) RunConcurrent(stores []StoreOpts, progs []TxnProg, schedule []int, co ConcOpts) ([]CResult, *Sched) {
	if co.Budget == 0 {
		co.Budget = 60 * time.Second
	}
	res := make([]CResult, len(progs))
	s := NewSched(len(progs), schedule, co.Budget)
	s.Strict = co.Strict
	s.Directed = co.Directed
	s.GateCommits = co.GateCommits
	body := func(i int) {
		t0 := time.Now()
		r := &res[i]
		r.Prog = progs[i]
		defer func() {
			// a panic inside SOP on a participant goroutine would kill the process and lose the case
			if p := recover(); p != nil {
				r.OpErr = fmt.Errorf("PANIC in participant: %v\n%s", p, trimStack(debug.Stack()))
				r.Panicked = true
			}
		}()
		t, err := e.NewTxn(TxnOptions{Mode: progs[i].Mode, MaxTime: co.MaxTime})
		if err != nil {
			r.OpErr = fmt.Errorf("HARNESS-ERROR NewTxn: %w", err)
			return
		}
		t.PassThroughPLogRemove.Store(true)
		if !co.FreeRunning {
			inner := s.HookFor(i)
			t.SetHook(func(site Site) Action {
				if site.After {
					return Action{}
				}
				a := inner(site)
				if co.Fault != nil {
					if fa := co.Fault(i, site); fa.Err != nil || fa.False {
						return fa
					}
				}
				return a
			})
		}
		if !co.FreeRunning {
			t.LockResult = func(ok bool) { s.NoteLockResult(i, ok) }
		}
		if co.OnTxn != nil {
			co.OnTxn(i, t)
		}
		defer func() { r.Trace = t.Trace; r.Wall = time.Since(t0) }()
		if err := t.Tx.Begin(Ctx); err != nil {
			r.OpErr = fmt.Errorf("Begin: %w", err)
			return
		}
		handles := map[int]Store{}
		for _, op := range progs[i].Ops {
			b, ok := handles[op.S]
			if !ok {
				var err error
				if co.Create {
					b, err = NewBtree[int, string](t, stores[op.S])
				} else {
					b, err = OpenBtree[int, string](t, stores[op.S].Name)
				}
				if err != nil {
					r.OpErr = fmt.Errorf("open %s: %w", stores[op.S].Name, err)
					break
				}
				handles[op.S] = b
			}
			o, err := observeOp(b, op)
			if err != nil {
				o.Err = err.Error()
				r.Obs = append(r.Obs, o)
				r.OpErr = fmt.Errorf("%s: %w", op, err)
				break
			}
			r.Obs = append(r.Obs, o)
		}
		if r.OpErr != nil {
			if t.Tx.HasBegun() {
				t.Tx.Rollback(Ctx)
			}
			return
		}
		if !co.FreeRunning {
			// (the pause at Commit.begin comes before the commit gate: until the Commit really starts others may begin
			// their operations, and the gate has to look at the participants as they are then)
			s.OpsDone(i)
			if len(co.Directed) > 0 {
				s.yield(i, "Commit.begin")
			}
			s.EnterCommit(i)
		}
		if progs[i].End == "rollback" {
			if err := t.Tx.Rollback(Ctx); err != nil {
				r.CommitErr = err
			}
			return
		}
		// the caller's deadline: a little after the transaction's own commit budget (documented usage)
		cctx := Ctx
		if co.MaxTime > 0 {
			var cancel context.CancelFunc
			cctx, cancel = context.WithTimeout(Ctx, co.MaxTime+3*time.Second)
			defer cancel()
		}
		if err := t.Tx.Commit(cctx); err != nil {
			r.CommitErr = err
			return
		}
		r.Committed = true
	}
	if co.FreeRunning {
		var wg sync.WaitGroup
		for i := range progs {
			wg.Add(1)
			go func(i int) { defer wg.Done(); body(i) }(i)
		}
		wg.Wait()
	} else {
		s.Run(body)
	}
	return res, s
}

// PinJitter makes sop.RandomSleep sleep its minimum (20 ms) and store-lock retries start at 5 ms.
func PinJitter() {
	sop.SetJitterRNG(rand.New(zeroSource{}))
	sop.RetryStartDuration = 5 * time.Millisecond
}

type zeroSource struct{}

func (zeroSource) Int63() int64 { return 0 }
func (zeroSource) Seed(int64)   {}

func trimStack(b []byte) string {
	lines := strings.Split(string(b), "\n")
	var keep []string
	for _, l := range lines {
		if strings.Contains(l, "sharedcode/sop") && len(keep) < 12 {
			keep = append(keep, strings.TrimSpace(l))
		}
	}
	return strings.Join(keep, "\n")
}
