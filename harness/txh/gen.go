package txh

import (
	"fmt"
	"time"

	"github.com/sharedcode/sop"
	"pgregory.net/rapid"
)

// GenStoreOpts draws the options of store number i.
func GenStoreOpts(t *rapid.T, i int, placements []int) StoreOpts {
	o := StoreOpts{Name: fmt.Sprintf("st%d", i)}
	o.Slot = rapid.SampledFrom([]int{2, 2, 3, 4, 4, 5, 6, 7, 8, 9, 16, 64, 500}).Draw(t, fmt.Sprintf("slot%d", i))
	o.Unique = rapid.Bool().Draw(t, fmt.Sprintf("unique%d", i))
	o.Placement = rapid.SampledFrom(placements).Draw(t, fmt.Sprintf("placement%d", i))
	o.Balancing = rapid.IntRange(0, 3).Draw(t, fmt.Sprintf("balancing%d", i)) == 0
	switch rapid.IntRange(0, 3).Draw(t, fmt.Sprintf("cachecfg%d", i)) {
	case 1:
		o.Cache = sop.NewStoreCacheConfig(0, false)
	case 2:
		o.Cache = sop.NewStoreCacheConfig(5*time.Minute, true)
	}
	return o
}



// GenOpts bounds for program generation.
type GenOpts struct {
	KeyDomain  int
	MaxOps     int
	MaxTxns    int
	BigValues  bool // allow values up to 256 KiB (and rarely > 1 MiB)
	ReadOnly   bool // include ForReading / NoCheck transactions
	Rollbacks  bool
	Placements []int
	MaxStores  int
}

// tagger hands out globally unique value tags inside one history.
type tagger struct{ n int }

func (g *tagger) next(txn int) string { g.n++; return fmt.Sprintf("t%d.w%d", txn, g.n) }

// GenOp draws one operation valid for the store's uniqueness.
func genOp(t *rapid.T, stores []StoreOpts, g GenOpts, tg *tagger, txn int) Op {
	s := rapid.IntRange(0, len(stores)-1).Draw(t, "store")
	var kinds []string
	if stores[s].Unique {
		kinds = []string{"add", "add", "add", "addIfNotExist", "upsert", "upsert", "update", "update", "remove", "remove", "findGet", "curUpdate", "curRemove", "scan", "count", "updateKey", "curUpdateKey"}
	} else {
		kinds = []string{"add", "add", "add", "add", "findGet", "curUpdate", "curUpdate", "curRemove", "curRemove", "scan", "count", "updateKey", "curUpdateKey"}
	}
	op := Op{S: s, Kind: rapid.SampledFrom(kinds).Draw(t, "kind")}
	op.K = rapid.IntRange(0, g.KeyDomain-1).Draw(t, "key")
	switch op.Kind {
	case "add", "addIfNotExist", "upsert", "update", "curUpdate":
		op.Tag = tg.next(txn)
		sizes := []int{0, 1, 10, 100, 1000}
		if g.BigValues {
			sizes = []int{0, 1, 10, 100, 1000, 5000, 70000, 262144}
		}
		op.Size = rapid.SampledFrom(sizes).Draw(t, "size")
		if g.BigValues && rapid.IntRange(0, 60).Draw(t, "huge") == 0 {
			op.Size = 1100000
		}
	}
	return op
}

// History is a generated sequential history.
type History struct {
	HashMod  int         `json:"hash_mod"`
	UUIDSeed uint64      `json:"uuid_seed"`
	Stores   []StoreOpts `json:"stores"`
	Txns     []TxnProg   `json:"txns"`
	// Rival (crash checks): a transaction that adds keys nobody else uses; it runs and commits after the last
	// transaction (the victim) has done its operations and before that one calls Commit, so the victim commits
	// against a store somebody else has changed (conflict, refetch-and-merge, a root somebody else created).
	Rival *TxnProg `json:"rival,omitempty"`
}

// GenHistory draws stores and transactions.
func GenHistory(t *rapid.T, g GenOpts) History {
	h := History{}
	h.HashMod = rapid.SampledFrom([]int{1, 2, 3, 5, 16}).Draw(t, "hashMod")
	h.UUIDSeed = rapid.Uint64().Draw(t, "uuidSeed")
	ns := rapid.IntRange(1, g.MaxStores).Draw(t, "nStores")
	for i := 0; i < ns; i++ {
		h.Stores = append(h.Stores, GenStoreOpts(t, i, g.Placements))
	}
	tg := &tagger{}
	nt := rapid.IntRange(1, g.MaxTxns).Draw(t, "nTxns")
	for i := 0; i < nt; i++ {
		p := TxnProg{Mode: sop.ForWriting, End: "commit"}
		if g.ReadOnly {
			switch rapid.IntRange(0, 7).Draw(t, "mode") {
			case 0:
				p.Mode = sop.ForReading
			case 1:
				p.Mode = sop.NoCheck
			}
		}
		if g.Rollbacks && rapid.IntRange(0, 4).Draw(t, "rollback") == 0 {
			p.End = "rollback"
		}
		no := rapid.IntRange(1, g.MaxOps).Draw(t, "nOps")
		for j := 0; j < no; j++ {
			p.Ops = append(p.Ops, genOp(t, h.Stores, g, tg, i+1))
		}
		h.Txns = append(h.Txns, p)
	}
	return h
}

// Render returns a compact, canonical rendering of a history (distinct counting, samples).
func (h History) Render() string {
	s := fmt.Sprintf("mod=%d seed=%x", h.HashMod, h.UUIDSeed)
	for _, st := range h.Stores {
		u := "dup"
		if st.Unique {
			u = "uniq"
		}
		s += fmt.Sprintf(" {%s slot=%d %s %s bal=%v}", st.Name, st.Slot, u, PlacementNames[st.Placement], st.Balancing)
	}
	for _, p := range h.Txns {
		s += " " + p.String()
	}
	if h.Rival != nil {
		s += " rival(commits before the last one's Commit):" + h.Rival.String()
	}
	return s
}
