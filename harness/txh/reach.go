package txh

import (
	"encoding/binary"
	"encoding/json"
	"fmt"
	"hash/crc32"
	"os"
	"path/filepath"
	"sort"
	"strings"

	"github.com/sharedcode/sop"
	"github.com/sharedcode/sop/encoding"
)

// This file is an independent reader of SOP's on-disk state (it does not go through the
// registry, cache, blob-store or B-tree code): storelist.txt / storeinfo.txt, the registry
// segment files (4096-byte blocks of 66 x 62-byte handle records + CRC32), node blobs (JSON)
// and value blobs. Only encoding.HandleEncoder (C24's subject) is borrowed.

const (
	regBlock = 4096
	regSlot  = 62
	regSlots = 66
)

// RawHandle is one non-zero registry slot.
type RawHandle struct {
	Seg, Block, Slot int
	H                sop.Handle
}

// ReadRegistryRaw decodes every non-zero slot of a registry table's segment files.
func ReadRegistryRaw(dir, table string) (slots []RawHandle, badCRC []string, err error) {
	m := encoding.NewHandleMarshaler()
	for seg := 1; ; seg++ {
		b, e := os.ReadFile(filepath.Join(dir, table, fmt.Sprintf("%s-%d.reg", table, seg)))
		if e != nil {
			break
		}
		for blk := 0; (blk+1)*regBlock <= len(b); blk++ {
			bb := b[blk*regBlock : (blk+1)*regBlock]
			if zero(bb) {
				continue
			}
			if crc32.ChecksumIEEE(bb[:regBlock-4]) != binary.LittleEndian.Uint32(bb[regBlock-4:]) {
				badCRC = append(badCRC, fmt.Sprintf("%s seg%d block%d", table, seg, blk))
			}
			for s := 0; s < regSlots; s++ {
				sb := bb[s*regSlot : (s+1)*regSlot]
				if zero(sb) {
					continue
				}
				var h sop.Handle
				if e := m.Unmarshal(sb, &h); e != nil {
					return nil, nil, fmt.Errorf("slot seg%d/block%d/slot%d: %w", seg, blk, s, e)
				}
				slots = append(slots, RawHandle{seg, blk, s, h})
			}
		}
	}
	return
}

func zero(b []byte) bool {
	for _, x := range b {
		if x != 0 {
			return false
		}
	}
	return true
}

type diskItem struct {
	ID              sop.UUID         `json:"ID"`
	Key             int              `json:"Key"`
	Value           *json.RawMessage `json:"Value,omitempty"`
	Version         int32            `json:"Version"`
	ValueNeedsFetch bool             `json:"ValueNeedsFetch,omitempty"`
}

type diskNode struct {
	ID          sop.UUID   `json:"ID"`
	ParentID    sop.UUID   `json:"ParentID"`
	Slots       []diskItem `json:"Slots"`
	Count       int        `json:"Count"`
	Version     int32      `json:"Version"`
	ChildrenIDs []sop.UUID `json:"ChildrenIDs,omitempty"`
}

// StoreReach is what the disk says about one store.
type StoreReach struct {
	Name        string
	Info        sop.StoreInfo
	Items       []KV // in-order traversal, values resolved (inline or value blob)
	Nodes       int
	NeedsFetch  int
	InlineOut   int // items of an out-of-node store whose node still carries the value inline
	LogicalIDs  map[sop.UUID]bool
	Referenced  map[string]bool // blob file names (uuid strings) a committed state references
	Required    map[string]bool // subset that must exist
	RegSlots    []RawHandle
	BlobFiles   []string // uuid file names present in the store's blob folder
	Problems    []string // C10: something reachable does not load
	OrphanBlobs []string // C11: unreferenced node blobs (and value blobs of in-node stores)
	// OrphanValueBlobs are unreferenced blobs of an out-of-node store whose content is a value, not a node.
	OrphanValueBlobs []string
	OrphanRegs  []string // C11
}

// Reach is the disk-truth report of a database directory.
type Reach struct {
	Stores   map[string]*StoreReach
	Names    []string
	Logs     []string // translogs/*.log, *.plg (and anything else under translogs)
	Cows     []string
	Problems []string
}

func blobPath(dir, table string, id sop.UUID) string {
	s := id.String()
	return filepath.Join(dir, table, string(s[0]), string(s[1]), string(s[2]), string(s[3]), s)
}

// ReadDisk walks the directory.
func ReadDisk(dir string) *Reach {
	r := &Reach{Stores: map[string]*StoreReach{}}
	if b, err := os.ReadFile(filepath.Join(dir, "storelist.txt")); err == nil {
		if err := json.Unmarshal(b, &r.Names); err != nil {
			r.Problems = append(r.Problems, fmt.Sprintf("storelist.txt does not parse: %v", err))
		}
	}
	sort.Strings(r.Names)
	for _, name := range r.Names {
		sr := &StoreReach{Name: name, LogicalIDs: map[sop.UUID]bool{}, Referenced: map[string]bool{}, Required: map[string]bool{}}
		r.Stores[name] = sr
		b, err := os.ReadFile(filepath.Join(dir, name, "storeinfo.txt"))
		if err != nil {
			sr.Problems = append(sr.Problems, fmt.Sprintf("store %s is listed but storeinfo.txt is unreadable: %v", name, err))
			continue
		}
		if err := json.Unmarshal(b, &sr.Info); err != nil {
			sr.Problems = append(sr.Problems, fmt.Sprintf("storeinfo.txt of %s does not parse: %v (%q)", name, err, string(b)))
			continue
		}
		slots, bad, err := ReadRegistryRaw(dir, sr.Info.RegistryTable)
		if err != nil {
			sr.Problems = append(sr.Problems, err.Error())
		}
		for _, x := range bad {
			sr.Problems = append(sr.Problems, "registry block with a bad checksum: "+x)
		}
		sr.RegSlots = slots
		byLID := map[sop.UUID]sop.Handle{}
		for _, s := range slots {
			if _, dup := byLID[s.H.LogicalID]; dup {
				sr.Problems = append(sr.Problems, fmt.Sprintf("logical id %v has two registry records", s.H.LogicalID))
			}
			byLID[s.H.LogicalID] = s.H
		}
		// walk
		var walk func(lid sop.UUID, depth int)
		walk = func(lid sop.UUID, depth int) {
			if depth > 64 || sr.LogicalIDs[lid] {
				if sr.LogicalIDs[lid] {
					sr.Problems = append(sr.Problems, fmt.Sprintf("node %v is reachable twice", lid))
				}
				return
			}
			h, ok := byLID[lid]
			if !ok {
				sr.Problems = append(sr.Problems, fmt.Sprintf("node %v is referenced but has no registry entry", lid))
				return
			}
			sr.LogicalIDs[lid] = true
			act := h.PhysicalIDA
			if h.IsActiveIDB {
				act = h.PhysicalIDB
			}
			sr.Referenced[act.String()] = true
			sr.Required[act.String()] = true
			nb, err := os.ReadFile(blobPath(dir, sr.Info.BlobTable, act))
			if err != nil {
				sr.Problems = append(sr.Problems, fmt.Sprintf("node %v: active blob %v does not load: %v", lid, act, err))
				return
			}
			var n diskNode
			if err := json.Unmarshal(nb, &n); err != nil {
				sr.Problems = append(sr.Problems, fmt.Sprintf("node %v: blob %v does not parse: %v", lid, act, err))
				return
			}
			sr.Nodes++
			if n.Count != len(n.Slots) {
				sr.Problems = append(sr.Problems, fmt.Sprintf("node %v: Count %d but %d slots", lid, n.Count, len(n.Slots)))
			}
			for i := 0; i <= len(n.Slots); i++ {
				if i < len(n.ChildrenIDs) && !n.ChildrenIDs[i].IsNil() {
					walk(n.ChildrenIDs[i], depth+1)
				}
				if i == len(n.Slots) {
					break
				}
				it := n.Slots[i]
				var v string
				switch {
				case it.ValueNeedsFetch || (it.Value == nil && !sr.Info.IsValueDataInNodeSegment):
					sr.NeedsFetch++
					sr.Referenced[it.ID.String()] = true
					sr.Required[it.ID.String()] = true
					vb, err := os.ReadFile(blobPath(dir, sr.Info.BlobTable, it.ID))
					if err != nil {
						sr.Problems = append(sr.Problems, fmt.Sprintf("item key %d (id %v): value blob does not load: %v", it.Key, it.ID, err))
						v = "<missing>"
					} else if err := json.Unmarshal(vb, &v); err != nil {
						sr.Problems = append(sr.Problems, fmt.Sprintf("item key %d (id %v): value blob does not decode: %v", it.Key, it.ID, err))
						v = "<undecodable>"
					}
				case it.Value != nil:
					if err := json.Unmarshal(*it.Value, &v); err != nil {
						sr.Problems = append(sr.Problems, fmt.Sprintf("item key %d: inline value does not decode: %v", it.Key, err))
					}
					if !sr.Info.IsValueDataInNodeSegment {
						sr.InlineOut++
						// a value blob named by the item id may exist too (Add writes both); it is referenced, not required
						sr.Referenced[it.ID.String()] = true
					}
				default:
					sr.Problems = append(sr.Problems, fmt.Sprintf("item key %d has no value and no ValueNeedsFetch", it.Key))
				}
				sr.Items = append(sr.Items, KV{it.Key, v})
			}
		}
		if _, ok := byLID[sr.Info.RootNodeID]; ok {
			walk(sr.Info.RootNodeID, 0)
		} else if sr.Info.Count != 0 {
			sr.Problems = append(sr.Problems, fmt.Sprintf("store %s reports %d items but its root %v has no registry entry", name, sr.Info.Count, sr.Info.RootNodeID))
		}
		// inventory of blob files
		filepath.Walk(filepath.Join(dir, sr.Info.BlobTable), func(p string, fi os.FileInfo, err error) error {
			if err != nil || fi.IsDir() {
				return nil
			}
			base := filepath.Base(p)
			if len(base) == 36 && strings.Count(base, "-") == 4 {
				sr.BlobFiles = append(sr.BlobFiles, base)
			}
			if strings.HasSuffix(base, ".cow") {
				r.Cows = append(r.Cows, p)
			}
			return nil
		})
		sort.Strings(sr.BlobFiles)
		have := map[string]bool{}
		for _, f := range sr.BlobFiles {
			have[f] = true
			if !sr.Referenced[f] {
				id, _ := sop.ParseUUID(f)
				b, _ := os.ReadFile(blobPath(dir, sr.Info.BlobTable, id))
				if !sr.Info.IsValueDataInNodeSegment && !strings.HasPrefix(string(b), `{"ID":`) {
					sr.OrphanValueBlobs = append(sr.OrphanValueBlobs, f)
				} else {
					sr.OrphanBlobs = append(sr.OrphanBlobs, f)
				}
			}
		}
		for _, s := range slots {
			if !sr.LogicalIDs[s.H.LogicalID] {
				sr.OrphanRegs = append(sr.OrphanRegs, fmt.Sprintf("%v(deleted=%v,ver=%d)", s.H.LogicalID, s.H.IsDeleted, s.H.Version))
			}
		}
	}
	filepath.Walk(filepath.Join(dir, "translogs"), func(p string, fi os.FileInfo, err error) error {
		if err != nil || fi.IsDir() {
			return nil
		}
		r.Logs = append(r.Logs, strings.TrimPrefix(p, dir+"/"))
		return nil
	})
	sort.Strings(r.Logs)
	return r
}

// LostSince lists the blobs a committed state referenced before (and that were on disk then) which are gone now.
// Meant for a transaction that did NOT commit in between (rollback, failed commit): the committed state is the same,
// so everything it referenced has to be there still ("rollback deletes only staged ids"). This also covers the value
// blob named by an item's id while the node still carries the value inline (the reader does not need it yet).
func (r *Reach) LostSince(before *Reach) []string {
	var out []string
	for _, n := range before.Names {
		b, a := before.Stores[n], r.Stores[n]
		if b == nil || a == nil {
			continue
		}
		have := map[string]bool{}
		for _, f := range a.BlobFiles {
			have[f] = true
		}
		for _, f := range b.BlobFiles {
			if b.Referenced[f] && !have[f] {
				out = append(out, fmt.Sprintf("store %s: blob %s, referenced by the committed state, was deleted by a transaction that did not commit", n, f))
			}
		}
	}
	return out
}

// AllProblems lists every C10-type problem (something reachable does not load).
func (r *Reach) AllProblems() []string {
	out := append([]string{}, r.Problems...)
	for _, n := range r.Names {
		out = append(out, r.Stores[n].Problems...)
	}
	return out
}

// CheckAgainst compares the disk's items with the models (cold, independent read path).
func (r *Reach) CheckAgainst(stores []StoreOpts, models []*Model) string {
	for i, so := range stores {
		sr := r.Stores[so.Name]
		if sr == nil {
			return fmt.Sprintf("store %s is not in storelist.txt", so.Name)
		}
		if ok, why := SameItems(sr.Items, models[i]); !ok {
			return fmt.Sprintf("disk walk of %s: %s", so.Name, why)
		}
		if sr.Info.Count != int64(len(models[i].Items)) {
			return fmt.Sprintf("storeinfo.txt of %s says count %d, model has %d", so.Name, sr.Info.Count, len(models[i].Items))
		}
	}
	return ""
}

// OrphanValues lists unreferenced value blobs of out-of-node stores.
func (r *Reach) OrphanValues() []string {
	var out []string
	for _, n := range r.Names {
		for _, b := range r.Stores[n].OrphanValueBlobs {
			out = append(out, fmt.Sprintf("%s: value blob %s is referenced by nothing", n, b))
		}
	}
	return out
}

// OrphanValuesOf lists the unreferenced value blobs of the stores selected by activelyPersisted.
func (r *Reach) OrphanValuesOf(activelyPersisted bool) []string {
	var out []string
	for _, n := range r.Names {
		if r.Stores[n].Info.IsValueDataActivelyPersisted != activelyPersisted {
			continue
		}
		for _, b := range r.Stores[n].OrphanValueBlobs {
			out = append(out, fmt.Sprintf("%s: value blob %s is referenced by nothing", n, b))
		}
	}
	return out
}

// Orphans lists C11-type leftovers other than OrphanValues.
func (r *Reach) Orphans() []string {
	var out []string
	for _, n := range r.Names {
		sr := r.Stores[n]
		for _, b := range sr.OrphanBlobs {
			out = append(out, fmt.Sprintf("%s: blob %s is referenced by nothing", n, b))
		}
		for _, g := range sr.OrphanRegs {
			out = append(out, fmt.Sprintf("%s: registry entry %s is not reachable from the root", n, g))
		}
	}
	for _, l := range r.Logs {
		out = append(out, "log file left: "+l)
	}
	for _, c := range r.Cows {
		out = append(out, "cow file left: "+c)
	}
	return out
}
