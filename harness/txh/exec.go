package txh

import (
	"errors"
	"fmt"
	"strings"
	"time"

	"github.com/sharedcode/sop"
	"github.com/sharedcode/sop/btree"
)

// Op is one B-tree operation of a generated program.
type Op struct {
	S    int    `json:"s"`    // store index
	Kind string `json:"kind"` // add addIfNotExist upsert update remove findGet curUpdate curRemove scan count
	K    int    `json:"k"`
	Tag  string `json:"tag,omitempty"`
	Size int    `json:"size,omitempty"`
}

func (o Op) String() string {
	switch o.Kind {
	case "scan", "count":
		return fmt.Sprintf("s%d.%s", o.S, o.Kind)
	case "remove", "findGet", "curRemove", "updateKey", "curUpdateKey":
		return fmt.Sprintf("s%d.%s(%d)", o.S, o.Kind, o.K)
	}
	return fmt.Sprintf("s%d.%s(%d,%s+%dB)", o.S, o.Kind, o.K, o.Tag, o.Size)
}

// TxnProg is one transaction of a history.
type TxnProg struct {
	Mode sop.TransactionMode `json:"mode"`
	Ops  []Op                `json:"ops"`
	End  string              `json:"end"` // commit | rollback
}

func (p TxnProg) String() string {
	s := make([]string, len(p.Ops))
	for i, o := range p.Ops {
		s[i] = o.String()
	}
	m := map[sop.TransactionMode]string{sop.ForWriting: "W", sop.ForReading: "R", sop.NoCheck: "N"}[p.Mode]
	return fmt.Sprintf("%s[%s]->%s", m, strings.Join(s, " "), p.End)
}

// Store is the typed handle used by the harness.
type Store = btree.BtreeInterface[int, string]

// TxnResult reports how a program run ended.
type TxnResult struct {
	Mismatch  string // first disagreement between an operation and the model ("" = none)
	OpErr     error  // an operation returned an error
	CommitErr error
	Committed bool
	Txn       *Txn
}

// ErrInjected is the error injected by fault plans.
var ErrInjected = errors.New("injected fault")

// Setup creates every store in one committed transaction (no hooks).
func (e *Env) Setup(stores []StoreOpts) error {
	t, err := e.NewTxn(TxnOptions{Mode: sop.ForWriting})
	if err != nil {
		return err
	}
	if err := t.Tx.Begin(Ctx); err != nil {
		return err
	}
	for _, so := range stores {
		if _, err := NewBtree[int, string](t, so); err != nil {
			return fmt.Errorf("NewBtree(%s): %w", so.Name, err)
		}
	}
	return t.Tx.Commit(Ctx)
}

// RunOpts configure RunTxn.
type RunOpts struct {
	MaxTime time.Duration
	// BeforeCommit is called after the operations, before Commit/Rollback, e.g. to install a hook.
	BeforeCommit func(t *Txn)
	// AtBegin is called right after the transaction object exists (before Begin).
	AtBegin func(t *Txn)
	// Create: open stores with NewBtree (create if missing) instead of OpenBtree.
	Create bool
	// BeforeCommitModels is called like BeforeCommit with the models the stores will equal iff the commit succeeds.
	BeforeCommitModels func(t *Txn, post []*Model)
}

// RunTxn executes prog against the real stores and against copies of models. It returns the
// models that are committed afterwards (the copies iff Commit returned nil).
func (e *Env) RunTxn(prog TxnProg, stores []StoreOpts, models []*Model, ro RunOpts) ([]*Model, TxnResult) {
	res := TxnResult{}
	work := make([]*Model, len(models))
	for i, m := range models {
		work[i] = m.Clone()
	}
	t, err := e.NewTxn(TxnOptions{Mode: prog.Mode, MaxTime: ro.MaxTime})
	if err != nil {
		res.OpErr = fmt.Errorf("HARNESS-ERROR NewTxn: %w", err)
		return models, res
	}
	res.Txn = t
	if ro.AtBegin != nil {
		ro.AtBegin(t)
	}
	if err := t.Tx.Begin(Ctx); err != nil {
		res.OpErr = fmt.Errorf("Begin: %w", err)
		return models, res
	}
	handles := map[int]Store{}
	get := func(i int) (Store, error) {
		if h, ok := handles[i]; ok {
			return h, nil
		}
		var h Store
		var err error
		if ro.Create {
			h, err = NewBtree[int, string](t, stores[i])
		} else {
			h, err = OpenBtree[int, string](t, stores[i].Name)
		}
		if err != nil {
			return nil, err
		}
		handles[i] = h
		return h, nil
	}
	writing := prog.Mode == sop.ForWriting
	for oi, op := range prog.Ops {
		b, err := get(op.S)
		if err != nil {
			res.OpErr = fmt.Errorf("open store %d: %w", op.S, err)
			break
		}
		m := work[op.S]
		mis, err := applyOp(b, m, op, writing)
		if err != nil {
			res.OpErr = fmt.Errorf("op %d %s: %w", oi, op, err)
			break
		}
		if mis != "" {
			res.Mismatch = fmt.Sprintf("op %d %s: %s", oi, op, mis)
			break
		}
	}
	if res.OpErr != nil || res.Mismatch != "" {
		if t.Tx.HasBegun() {
			t.Tx.Rollback(Ctx)
		}
		return models, res
	}
	if ro.BeforeCommit != nil {
		ro.BeforeCommit(t)
	}
	if ro.BeforeCommitModels != nil {
		ro.BeforeCommitModels(t, work)
	}
	if prog.End == "rollback" {
		if err := t.Tx.Rollback(Ctx); err != nil {
			res.CommitErr = fmt.Errorf("Rollback: %w", err)
		}
		return models, res
	}
	// make sure every store of the history is open in a committing writer? no: only touched ones.
	if err := t.Tx.Commit(Ctx); err != nil {
		res.CommitErr = err
		return models, res
	}
	res.Committed = true
	if !writing {
		return models, res
	}
	return work, res
}

// applyOp performs one operation on the store and the model and compares the results.
func applyOp(b Store, m *Model, op Op, writing bool) (string, error) {
	val := MakeValue(op.Tag, op.Size)
	cmp := func(what string, got, want bool) string {
		if got != want {
			return fmt.Sprintf("%s returned %v, model says %v (model values under key: %v)", what, got, want, shortAll(m.Values(op.K)))
		}
		return ""
	}
	if !writing {
		switch op.Kind {
		case "add", "addIfNotExist", "upsert", "update", "remove", "curUpdate", "curRemove", "updateKey", "curUpdateKey":
			return applyReadOnlyWrite(b, m, op, val)
		}
	}
	switch op.Kind {
	case "add":
		ok, err := b.Add(Ctx, op.K, val)
		if err != nil {
			return "", err
		}
		return cmp("Add", ok, m.Add(op.K, val)), nil
	case "addIfNotExist":
		ok, err := b.AddIfNotExist(Ctx, op.K, val)
		if err != nil {
			return "", err
		}
		want := false
		if !m.Has(op.K) {
			want = m.Add(op.K, val)
		}
		return cmp("AddIfNotExist", ok, want), nil
	case "upsert": // unique stores only
		ok, err := b.Upsert(Ctx, op.K, val)
		if err != nil {
			return "", err
		}
		if !m.SetUnique(op.K, val) {
			m.Add(op.K, val)
		}
		return cmp("Upsert", ok, true), nil
	case "update": // unique stores only
		ok, err := b.Update(Ctx, op.K, val)
		if err != nil {
			return "", err
		}
		return cmp("Update", ok, m.SetUnique(op.K, val)), nil
	case "remove": // unique stores only
		ok, err := b.Remove(Ctx, op.K)
		if err != nil {
			return "", err
		}
		return cmp("Remove", ok, m.RemoveUnique(op.K)), nil
	case "updateKey": // key-only update (the value is not fetched): changes nothing the model sees
		ok, err := b.UpdateKey(Ctx, op.K)
		if err != nil {
			return "", err
		}
		return cmp("UpdateKey", ok, m.Has(op.K)), nil
	case "curUpdateKey":
		ok, err := b.Find(Ctx, op.K, false)
		if err != nil {
			return "", err
		}
		if s := cmp("Find", ok, m.Has(op.K)); s != "" || !ok {
			return s, nil
		}
		ok, err = b.UpdateCurrentKey(Ctx, op.K)
		if err != nil {
			return "", err
		}
		return cmp("UpdateCurrentKey", ok, true), nil
	case "findGet", "curUpdate", "curRemove":
		ok, err := b.Find(Ctx, op.K, false)
		if err != nil {
			return "", err
		}
		if s := cmp("Find", ok, m.Has(op.K)); s != "" || !ok {
			return s, nil
		}
		if k := b.GetCurrentKey().Key; k != op.K {
			return fmt.Sprintf("Find(%d) positioned on key %d", op.K, k), nil
		}
		cur, err := b.GetCurrentValue(Ctx)
		if err != nil {
			return "", fmt.Errorf("GetCurrentValue: %w", err)
		}
		found := false
		for _, v := range m.Values(op.K) {
			if v == cur {
				found = true
			}
		}
		if !found {
			return fmt.Sprintf("value read under key %d is %s, model has %v", op.K, Short(cur), shortAll(m.Values(op.K))), nil
		}
		switch op.Kind {
		case "curUpdate":
			ok, err := b.UpdateCurrentValue(Ctx, val)
			if err != nil {
				return "", err
			}
			m.ReplaceOccurrence(op.K, cur, val)
			return cmp("UpdateCurrentValue", ok, true), nil
		case "curRemove":
			ok, err := b.RemoveCurrentItem(Ctx)
			if err != nil {
				return "", err
			}
			m.RemoveOccurrence(op.K, cur)
			return cmp("RemoveCurrentItem", ok, true), nil
		}
		return "", nil
	case "scan":
		items, err := Scan(b)
		if err != nil {
			return "", err
		}
		if ok, why := SameItems(items, m); !ok {
			return "in-transaction scan: " + why, nil
		}
		return "", nil
	case "count":
		if c := b.Count(); c != int64(len(m.Items)) {
			return fmt.Sprintf("Count()=%d, model has %d", c, len(m.Items)), nil
		}
		return "", nil
	}
	return "", fmt.Errorf("HARNESS-ERROR unknown op kind %q", op.Kind)
}

// applyReadOnlyWrite: a mutating call in a read-only / no-check transaction must not succeed
// (it may return false or an error) and must not change anything (checked by later dumps).
func applyReadOnlyWrite(b Store, m *Model, op Op, val string) (string, error) {
	var ok bool
	var err error
	switch op.Kind {
	case "add":
		ok, err = b.Add(Ctx, op.K, val)
	case "addIfNotExist":
		ok, err = b.AddIfNotExist(Ctx, op.K, val)
	case "upsert":
		ok, err = b.Upsert(Ctx, op.K, val)
	case "update":
		ok, err = b.Update(Ctx, op.K, val)
	case "remove":
		ok, err = b.Remove(Ctx, op.K)
	case "curUpdate":
		if f, _ := b.Find(Ctx, op.K, false); f {
			ok, err = b.UpdateCurrentValue(Ctx, val)
		}
	case "curRemove":
		if f, _ := b.Find(Ctx, op.K, false); f {
			ok, err = b.RemoveCurrentItem(Ctx)
		}
	case "updateKey":
		ok, err = b.UpdateKey(Ctx, op.K)
	case "curUpdateKey":
		if f, _ := b.Find(Ctx, op.K, false); f {
			ok, err = b.UpdateCurrentKey(Ctx, op.K)
		}
	}
	if ok && err == nil {
		return fmt.Sprintf("%s succeeded in a transaction that is not ForWriting", op.Kind), nil
	}
	return "", nil
}

func shortAll(vs []string) []string {
	r := make([]string, len(vs))
	for i, v := range vs {
		r[i] = Short(v)
	}
	return r
}

// Scan walks First/Next and returns every (key,value).
func Scan(b Store) ([]KV, error) {
	var items []KV
	ok, err := b.First(Ctx)
	if err != nil {
		return nil, fmt.Errorf("First: %w", err)
	}
	for ok {
		k := b.GetCurrentKey().Key
		v, err := b.GetCurrentValue(Ctx)
		if err != nil {
			return nil, fmt.Errorf("GetCurrentValue(key %d): %w", k, err)
		}
		items = append(items, KV{k, v})
		if ok, err = b.Next(Ctx); err != nil {
			return nil, fmt.Errorf("Next: %w", err)
		}
	}
	return items, nil
}

// StoreDump is what a fresh reader sees of one store.
type StoreDump struct {
	Exists bool
	Items  []KV
	Count  int64
	Info   sop.StoreInfo
}

// Dump opens a fresh transaction of the given mode and reads every store completely.
func (e *Env) Dump(stores []StoreOpts, mode sop.TransactionMode) ([]StoreDump, error) {
	t, err := e.NewTxn(TxnOptions{Mode: mode})
	if err != nil {
		return nil, err
	}
	t.Record = false
	if err := t.Tx.Begin(Ctx); err != nil {
		return nil, fmt.Errorf("dump Begin: %w", err)
	}
	out := make([]StoreDump, len(stores))
	for i, so := range stores {
		b, err := OpenBtree[int, string](t, so.Name)
		if err != nil {
			// OpenBtree of a missing store rolls the transaction back: start another one
			if strings.Contains(err.Error(), "does not exist") {
				t, err = e.NewTxn(TxnOptions{Mode: mode})
				if err != nil {
					return nil, err
				}
				t.Record = false
				if err := t.Tx.Begin(Ctx); err != nil {
					return nil, fmt.Errorf("dump Begin: %w", err)
				}
				continue
			}
			return nil, fmt.Errorf("dump OpenBtree(%s): %w", so.Name, err)
		}
		items, err := Scan(b)
		if err != nil {
			t.Tx.Rollback(Ctx)
			return nil, fmt.Errorf("dump scan of %s: %w", so.Name, err)
		}
		out[i] = StoreDump{Exists: true, Items: items, Count: b.Count(), Info: b.GetStoreInfo()}
	}
	if t.Tx.HasBegun() {
		if err := t.Tx.Commit(Ctx); err != nil {
			return nil, fmt.Errorf("dump Commit: %w", err)
		}
	}
	return out, nil
}

// CheckDump compares a dump with the models; returns "" when equal.
func CheckDump(d []StoreDump, stores []StoreOpts, models []*Model) string {
	for i := range stores {
		if !d[i].Exists {
			return fmt.Sprintf("store %s does not exist for a fresh reader", stores[i].Name)
		}
		if ok, why := SameItems(d[i].Items, models[i]); !ok {
			return fmt.Sprintf("store %s: %s", stores[i].Name, why)
		}
		if d[i].Count != int64(len(d[i].Items)) {
			return fmt.Sprintf("store %s: Count()=%d but the scan returns %d items", stores[i].Name, d[i].Count, len(d[i].Items))
		}
	}
	return ""
}
