// Package txh builds SOP's real file-system backed transaction exactly as
// infs.NewTwoPhaseCommitTransaction composes it, with every collaborator that
// common.NewTwoPhaseCommitTransaction accepts as an interface wrapped in a decorator. A
// decorator numbers every call, records it and consults a Hook which can fail the call
// (before it executes), block it (scheduler), or kill the process (crash runner).
package txh

import (
	"context"
	"encoding/binary"
	"fmt"
	"os"
	"path/filepath"
	"strings"
	"sync"
	"sync/atomic"
	"time"

	"github.com/google/uuid"
	"github.com/sharedcode/sop"
	"github.com/sharedcode/sop/btree"
	"github.com/sharedcode/sop/cache"
	"github.com/sharedcode/sop/common"
	"github.com/sharedcode/sop/fs"
)

// Ctx is the background context used by the harness.
var Ctx = context.Background()

// Site names one call into the backend made by one transaction.
type Site struct {
	Txn    int    // harness transaction number inside the case
	Comp   string // Registry, BlobStore, StoreRepository, L2, TLog, PLog
	Method string
	N      int // index of this call among all backend calls of the transaction (0-based)
	K      int // index among calls with the same Comp.Method of the transaction
	After  bool
	// Info carries a short rendering of the arguments (ids, flags) for traces.
	Info string
}

func (s Site) Name() string { return fmt.Sprintf("%s.%s#%d", s.Comp, s.Method, s.K) }

func (s Site) String() string {
	a := ""
	if s.After {
		a = "/after"
	}
	return fmt.Sprintf("t%d:%d:%s%s", s.Txn, s.N, s.Name(), a)
}

// Action is what a hook tells the decorator to do.
type Action struct {
	Err   error // return this error without executing the call
	False bool  // for Lock/DualLock/IsLocked: return false,nil without executing
}

// Hook is consulted before (and after, with Site.After) every decorated call.
type Hook func(s Site) Action

// Env is one database directory plus the process-wide L2 cache.
type Env struct {
	Dir     string
	HashMod int
	L2      sop.L2Cache
	mu      sync.Mutex
	nTxn    int
	// OnRegistry, when set, is told every registry write a transaction manager makes (before it executes,
	// After=false, and once more after it returned, After=true).
	OnRegistry func(ev RegEvent)
}

// RegEvent is one registry write as issued by a transaction (payload copied).
type RegEvent struct {
	Txn     int
	Method  string // Add Update UpdateNoLocks UpdateNoLocksFlip Remove
	After   bool
	Err     error
	Handles []sop.Handle // Add/Update*: the images written
	IDs     []sop.UUID   // Remove
	Tables  []string
}

var (
	l2Once sync.Once
	l2Real sop.L2Cache
)

// ProcessL2 returns the process singleton in-memory L2 cache, the same object
// sop.GetL2Cache hands to every infs transaction of a standalone process.
func ProcessL2() sop.L2Cache {
	l2Once.Do(func() {
		l2Real = sop.GetL2Cache(sop.TransactionOptions{CacheType: sop.InMemory})
		if l2Real == nil {
			l2Real = cache.NewL2InMemoryCache()
		}
		cache.GetGlobalL1Cache(l2Real)
	})
	return l2Real
}

// NewEnv creates a fresh directory. The L2 cache is cleared so locks or entries leaked
// by an earlier case (other directory, other ids) cannot reach this one.
func NewEnv(hashMod int) (*Env, error) {
	d, err := os.MkdirTemp("", "txh")
	if err != nil {
		return nil, fmt.Errorf("HARNESS-ERROR mkdtemp: %w", err)
	}
	l2 := ProcessL2()
	l2.Clear(Ctx)
	fs.GlobalReplicationDetails = nil
	return &Env{Dir: d, HashMod: hashMod, L2: l2}, nil
}

// OpenEnv attaches to an existing directory (restart workers).
func OpenEnv(dir string, hashMod int) *Env {
	return &Env{Dir: dir, HashMod: hashMod, L2: ProcessL2()}
}

// Cleanup removes the directory.
func (e *Env) Cleanup() { os.RemoveAll(e.Dir) }

// ---- deterministic, case-unique UUIDs ---------------------------------------------------

var caseCounter atomic.Uint64

type uuidSource struct {
	mu      sync.Mutex
	state   uint64
	caseNo  uint64
	counter uint64
}

// placementLCM is a multiple of every registry hash modulus the harness uses (1..16, 250),
// so adding caseNo*placementLCM to the high half never changes block placement.
const placementLCM = 18018000

func (u *uuidSource) Read(p []byte) (int, error) {
	u.mu.Lock()
	defer u.mu.Unlock()
	for i := 0; i < len(p); i += 8 {
		// splitmix64
		u.state += 0x9e3779b97f4a7c15
		z := u.state
		z = (z ^ (z >> 30)) * 0xbf58476d1ce4e5b9
		z = (z ^ (z >> 27)) * 0x94d049bb133111eb
		z ^= z >> 31
		var b [8]byte
		binary.BigEndian.PutUint64(b[:], z)
		copy(p[i:], b[:])
	}
	if len(p) == 16 {
		// high half := base + caseNo*M, M = placementLCM<<16: unique per case execution, and
		// (high % mod) depends on base only. Bits 12-15 of base are pre-set to the version
		// nibble (4) google/uuid writes into byte 6, so that write changes nothing.
		base := binary.BigEndian.Uint64(p[0:8]) & (1<<40 - 1)
		base = base&^(0xf<<12) | 0x4<<12
		high := base + (u.caseNo%(1<<22))*(placementLCM<<16)
		binary.BigEndian.PutUint64(p[0:8], high)
	}
	return len(p), nil
}

// SeedUUIDs makes google/uuid (hence sop.NewUUID) a function of seed for the rest of the
// case, while keeping ids unique across case executions in this process. Registry block and
// slot placement of every id depends on seed only. Note uuid.NewRandom then sets version and
// variant bits, which is fine.
func SeedUUIDs(seed uint64) {
	uuid.SetRand(&uuidSource{state: seed, caseNo: caseCounter.Add(1)})
}

// ResetUUIDs returns to crypto/rand.
func ResetUUIDs() { uuid.SetRand(nil) }

// ---- transactions -----------------------------------------------------------------------

// Txn is one SOP transaction with decorated collaborators.
type Txn struct {
	Env   *Env
	No    int
	Mode  sop.TransactionMode
	Tx    sop.Transaction
	Two   *common.Transaction
	hook  atomic.Pointer[Hook]
	mu    sync.Mutex
	n     int
	perK  map[string]int
	Trace []Site
	// Record controls whether calls are appended to Trace.
	Record bool
	rt     interface{ SetTransactionID(sop.UUID) }
	// PassThroughPLogRemove makes PriorityLog.Remove a pass-through (it runs on a side goroutine in phase 2).
	PassThroughPLogRemove atomic.Bool
	reg    fs.Registry
	// LockResult, when set, is told the outcome of every node-level Lock/DualLock the transaction manager makes.
	LockResult func(ok bool)
}

// SetHook installs (or clears, with nil) the hook.
func (t *Txn) SetHook(h Hook) {
	if h == nil {
		t.hook.Store(nil)
		return
	}
	t.hook.Store(&h)
}

func (t *Txn) enter(comp, method, info string) (Site, Action) {
	t.mu.Lock()
	key := comp + "." + method
	s := Site{Txn: t.No, Comp: comp, Method: method, N: t.n, K: t.perK[key], Info: info}
	t.n++
	t.perK[key]++
	if t.Record {
		t.Trace = append(t.Trace, s)
	}
	t.mu.Unlock()
	if hp := t.hook.Load(); hp != nil {
		return s, (*hp)(s)
	}
	return s, Action{}
}

func (t *Txn) leave(s Site) {
	if hp := t.hook.Load(); hp != nil {
		s.After = true
		(*hp)(s)
	}
}

// Calls returns how many backend calls the transaction has made so far.
func (t *Txn) Calls() int {
	t.mu.Lock()
	defer t.mu.Unlock()
	return t.n
}

// Options for NewTxn.
type TxnOptions struct {
	Mode    sop.TransactionMode
	MaxTime time.Duration
}

// NewTxn composes a transaction like infs.NewTwoPhaseCommitTransaction does.
func (e *Env) NewTxn(o TxnOptions) (*Txn, error) {
	e.mu.Lock()
	e.nTxn++
	no := e.nTxn
	e.mu.Unlock()
	t := &Txn{Env: e, No: no, Mode: o.Mode, perK: map[string]int{}, Record: true}
	rt, err := fs.NewReplicationTracker(Ctx, []string{e.Dir}, false, e.L2)
	if err != nil {
		return nil, err
	}
	sr, err := fs.NewStoreRepository(Ctx, rt, fs.NewManageStoreFolder(fs.NewFileIO()), e.L2, e.HashMod)
	if err != nil {
		return nil, err
	}
	hm := e.HashMod
	if i, err := sr.GetRegistryHashModValue(Ctx); err != nil {
		return nil, err
	} else if i > 0 {
		hm = i
	}
	tl := fs.NewTransactionLog(e.L2, rt)
	reg := fs.NewRegistry(o.Mode == sop.ForWriting, hm, rt, e.L2)
	t.reg = reg
	two, err := common.NewTwoPhaseCommitTransaction(o.Mode, o.MaxTime,
		&blobDeco{t: t, in: fs.NewBlobStore(e.Dir, nil, nil)},
		&srDeco{t: t, in: sr},
		&regDeco{t: t, in: reg},
		&l2Deco{t: t, L2Cache: e.L2},
		&tlDeco{t: t, in: tl, pl: &plDeco{t: t, in: tl.PriorityLog()}})
	if err != nil {
		return nil, err
	}
	rt.SetTransactionID(two.GetID())
	t.Two = two
	tx, err := sop.NewTransaction(o.Mode, two)
	if err != nil {
		return nil, err
	}
	t.Tx = tx
	return t, nil
}

// StoreOpts are the per-store options the generators draw.
type StoreOpts struct {
	Name        string
	Slot        int
	Unique      bool
	Placement   int // 0 in node, 1 separate segment, 2 separate + globally cached, 3 actively persisted, 4 actively persisted + globally cached
	Balancing   bool
	Description string
	Cache       *sop.StoreCacheConfig
}

// PlacementNames for labels.
var PlacementNames = []string{"inNode", "separate", "separateCached", "active", "activeCached"}

// ToSop converts to sop.StoreOptions the way infs.NewBtree prepares them.
func (e *Env) ToSop(o StoreOpts) sop.StoreOptions {
	so := sop.StoreOptions{
		Name:                           o.Name,
		SlotLength:                     o.Slot,
		IsUnique:                       o.Unique,
		LeafLoadBalancing:              o.Balancing,
		Description:                    o.Description,
		DisableRegistryStoreFormatting: true,
		DisableBlobStoreFormatting:     true,
		BlobStoreBaseFolderPath:        e.Dir,
	}
	switch o.Placement {
	case 0:
		so.IsValueDataInNodeSegment = true
	case 1:
	case 2:
		so.IsValueDataGloballyCached = true
	case 3:
		so.IsValueDataActivelyPersisted = true
	case 4:
		so.IsValueDataActivelyPersisted = true
		so.IsValueDataGloballyCached = true
	}
	if o.Cache != nil {
		c := *o.Cache
		so.CacheConfig = &c
	}
	return so
}

// NewBtree creates or opens a store in the transaction (common.NewBtree, as infs.NewBtree).
func NewBtree[TK btree.Ordered, TV any](t *Txn, o StoreOpts) (btree.BtreeInterface[TK, TV], error) {
	return common.NewBtree[TK, TV](Ctx, t.Env.ToSop(o), t.Tx, nil)
}

// OpenBtree opens an existing store.
func OpenBtree[TK btree.Ordered, TV any](t *Txn, name string) (btree.BtreeInterface[TK, TV], error) {
	return common.OpenBtree[TK, TV](Ctx, name, t.Tx, nil)
}

// EvictNodeCaches drops every B-tree node (and cached registry handle) of this environment from the process
// L1 cache and the L2 cache, as after eviction under memory pressure or in a process that has just started:
// the next transaction that needs a node takes a cache miss and loads it from the blob store.
func (e *Env) EvictNodeCaches() {
	l1 := cache.GetGlobalL1Cache(e.L2)
	var ids []sop.UUID
	filepath.Walk(e.Dir, func(p string, fi os.FileInfo, err error) error {
		if err != nil || fi.IsDir() {
			return nil
		}
		base := filepath.Base(p)
		if len(base) == 36 && strings.Count(base, "-") == 4 {
			if id, err := sop.ParseUUID(base); err == nil {
				ids = append(ids, id)
			}
		}
		return nil
	})
	l1.DeleteNodes(Ctx, ids)
	l1.Handles.Clear()
	// nodes whose blob file is gone (deleted by a cleanup - or by a defect) are not in the list above: push everything
	// out of L1 and drop the L2 entries too, so that nothing is served from memory that the disk no longer has
	e.EvictL1Only()
	e.L2.Clear(Ctx)
}

// EvictL1Only pushes every real node out of the process L1 cache (by filling it with placeholder nodes, which are
// then removed) without touching the L2 cache: the next transaction that needs a node takes an L1 miss and an L2 hit.
func (e *Env) EvictL1Only() {
	l1 := cache.GetGlobalL1Cache(e.L2)
	var ids []sop.UUID
	for i := 0; i < 4*cache.DefaultMaxCapacity; i++ {
		id := sop.NewUUID()
		ids = append(ids, id)
		l1.SetNodeToMRU(Ctx, id, &btree.Node[int, string]{ID: id}, time.Minute)
	}
	l1.DeleteNodes(Ctx, ids)
}
