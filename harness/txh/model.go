package txh

import (
	"fmt"
	"sort"
	"strings"
)

// KV is one item of the reference model.
type KV struct {
	K int
	V string
}

// Model is the reference for one store: an ordered multiset of (key,value); for unique
// stores at most one item per key.
type Model struct {
	Unique bool
	Items  []KV // kept sorted by K (order among equal keys is insertion order, not compared)
}

// Clone copies the model.
func (m *Model) Clone() *Model {
	c := &Model{Unique: m.Unique, Items: make([]KV, len(m.Items))}
	copy(c.Items, m.Items)
	return c
}

func (m *Model) lower(k int) int { return sort.Search(len(m.Items), func(i int) bool { return m.Items[i].K >= k }) }
func (m *Model) upper(k int) int { return sort.Search(len(m.Items), func(i int) bool { return m.Items[i].K > k }) }

// Has reports whether some item has key k.
func (m *Model) Has(k int) bool { i := m.lower(k); return i < len(m.Items) && m.Items[i].K == k }

// Values returns the values stored under k.
func (m *Model) Values(k int) []string {
	var r []string
	for i := m.lower(k); i < len(m.Items) && m.Items[i].K == k; i++ {
		r = append(r, m.Items[i].V)
	}
	return r
}

// Add inserts; returns false for an existing key of a unique store.
func (m *Model) Add(k int, v string) bool {
	if m.Unique && m.Has(k) {
		return false
	}
	i := m.upper(k)
	m.Items = append(m.Items, KV{})
	copy(m.Items[i+1:], m.Items[i:])
	m.Items[i] = KV{k, v}
	return true
}

// SetUnique replaces the value of the single item with key k.
func (m *Model) SetUnique(k int, v string) bool {
	i := m.lower(k)
	if i < len(m.Items) && m.Items[i].K == k {
		m.Items[i].V = v
		return true
	}
	return false
}

// ReplaceOccurrence replaces one (k,old) by (k,v).
func (m *Model) ReplaceOccurrence(k int, old, v string) bool {
	for i := m.lower(k); i < len(m.Items) && m.Items[i].K == k; i++ {
		if m.Items[i].V == old {
			m.Items[i].V = v
			return true
		}
	}
	return false
}

// RemoveOccurrence removes one (k,old).
func (m *Model) RemoveOccurrence(k int, old string) bool {
	for i := m.lower(k); i < len(m.Items) && m.Items[i].K == k; i++ {
		if m.Items[i].V == old {
			m.Items = append(m.Items[:i], m.Items[i+1:]...)
			return true
		}
	}
	return false
}

// RemoveUnique removes the single item with key k.
func (m *Model) RemoveUnique(k int) bool {
	i := m.lower(k)
	if i < len(m.Items) && m.Items[i].K == k {
		m.Items = append(m.Items[:i], m.Items[i+1:]...)
		return true
	}
	return false
}

// Canon renders the model with values under equal keys sorted (multiset comparison).
func Canon(items []KV) string {
	c := make([]KV, len(items))
	copy(c, items)
	sort.SliceStable(c, func(i, j int) bool {
		if c[i].K != c[j].K {
			return c[i].K < c[j].K
		}
		return c[i].V < c[j].V
	})
	var sb strings.Builder
	for _, kv := range c {
		fmt.Fprintf(&sb, "%d=%s;", kv.K, Short(kv.V))
	}
	return sb.String()
}

// Short abbreviates long values for messages (value = tag|padding).
func Short(v string) string {
	if len(v) <= 24 {
		return v
	}
	if i := strings.IndexByte(v, '|'); i >= 0 && i < 24 {
		return fmt.Sprintf("%s|+%dB", v[:i], len(v)-i-1)
	}
	return fmt.Sprintf("%s...(%dB)", v[:16], len(v))
}

// SameItems compares a scan with the model: keys in non-decreasing order in the scan, and equal
// as multisets of (key,value).
func SameItems(scan []KV, m *Model) (bool, string) {
	for i := 1; i < len(scan); i++ {
		if scan[i-1].K > scan[i].K {
			return false, fmt.Sprintf("scan out of key order at %d: %d after %d", i, scan[i].K, scan[i-1].K)
		}
		if m.Unique && scan[i-1].K == scan[i].K {
			return false, fmt.Sprintf("unique store scan has key %d twice", scan[i].K)
		}
	}
	a, b := Canon(scan), Canon(m.Items)
	if a != b {
		return false, fmt.Sprintf("store has {%s}, model has {%s}", a, b)
	}
	return true, ""
}

// MakeValue builds the value for a (tag,size) pair: "tag|" followed by size filler bytes.
func MakeValue(tag string, size int) string {
	if size <= 0 {
		return tag + "|"
	}
	return tag + "|" + strings.Repeat("v", size)
}
