package textsearch

import (
	"context"
	"fmt"
	"math"
	"os"
	"sort"
	"strings"
	"sync/atomic"
	"testing"
	"time"

	"github.com/sharedcode/sop"
	_ "github.com/sharedcode/sop/cache" // registers the in-memory L2 cache factory
	"github.com/sharedcode/sop/infs"
	"github.com/sharedcode/sop/search"
	"pgregory.net/rapid"

	"verif/harness/stats"
)

// ---------------------------------------------------------------------------------------
// C32 - text search returns exactly the matching documents, ranked by BM25.
//
// Subject: /repo/search/index.go (Index.Add, Index.Search). Tokenisation is taken from
// the package's exported SimpleTokenizer for both the model and the queries (it is not
// the subject). The oracle is a reference BM25 written from the formula in index.go's
// comments:  idf = ln((N-n+0.5)/(n+0.5)+1),  k1 = 1.2, b = 0.75,
//            score = idf * tf*(k1+1) / (tf + k1*(1-b+b*docLen/avgDL)),  summed over query terms.
// ---------------------------------------------------------------------------------------

// word pool: plain words, words that are prefixes of one another (the postings scan is a
// prefix scan over "term|docID" keys and '|' (0x7C) sorts after ASCII letters/digits but
// before every multi-byte rune), digits, non-ASCII letters and digits, upper-case forms whose
// lower-casing changes the byte length.
var wordPool = []string{
	"apple", "banana", "cherry", "grape", "kiwi", "lemon", "mango",
	"ab", "abc", "ab1", "abé", "b", "z", "zz",
	"42", "7", "007", "x9",
	"über", "naïve", "straße", "日本", "東京", "٣٤", "ωmega", "ÉCOLE", "İstanbul", "Ǆungla",
}

var stopPool = []string{"the", "and", "of", "is", "a", "to", "in", "The", "AND", "not", "with"}

// separators: everything here is neither a letter nor a number for package unicode.
var sepPool = []string{" ", " ", " ", ", ", ". ", "-", "|", "\n", "\t", "!? ", "'", "_", " — ", "  ", "/", "||", "~"}

// words that are never indexed (drawn only into queries); "ab0"/"abd"/"a9" sort between indexed
// terms that share a prefix with them, "zzz"/"~" after everything, "0" before everything.
var unknownPool = []string{"zzz", "qqq", "ab0", "abd", "a9", "0", "appl", "apples", "日", "üb"}

var docIDPool = []string{
	"d01", "d02", "d03", "d04", "d05", "d06", "d07", "d08", "d09", "d10", "d11", "d12",
	"D01", "doc|1", "a b", "ü-id", "~", "x/y", "|", "日本", "apple", "abc|d01",
}

type doc struct {
	ID   string
	Text string
}

type c32Case struct {
	Docs        []doc
	Cuts        []int // batch k holds Docs[Cuts[k]:Cuts[k+1]]
	Queries     []string
	InWriter    bool // also search inside the last writing transaction before it commits
	AfterEachTx bool // also search (fresh reader) after every intermediate commit
}

func (c c32Case) canon() string {
	var sb strings.Builder
	fmt.Fprintf(&sb, "cuts=%v w=%v e=%v", c.Cuts, c.InWriter, c.AfterEachTx)
	for _, d := range c.Docs {
		fmt.Fprintf(&sb, " D(%q:%q)", d.ID, d.Text)
	}
	for _, q := range c.Queries {
		fmt.Fprintf(&sb, " Q(%q)", q)
	}
	return sb.String()
}

// brief is canon() cut to a readable length (the rapid .fail file holds the whole case).
func (c c32Case) brief() string {
	s := c.canon()
	if len(s) > 6000 {
		return fmt.Sprintf("%s ... (%d bytes, %d docs)", s[:6000], len(s), len(c.Docs))
	}
	return s
}

func caseVariant(t *rapid.T, w string) string {
	switch rapid.IntRange(0, 5).Draw(t, "case") {
	case 0:
		return strings.ToUpper(w)
	case 1:
		r := []rune(w)
		return strings.ToUpper(string(r[:1])) + string(r[1:])
	default:
		return w
	}
}

func genCase(t *rapid.T) c32Case {
	vocabN := rapid.IntRange(6, 15).Draw(t, "vocabN")
	vocab := rapid.SliceOfNDistinct(rapid.SampledFrom(wordPool), vocabN, vocabN, rapid.ID[string]).Draw(t, "vocab")
	// a skewed vocabulary (few hot words) gives shared terms and different tf/df
	hot := rapid.IntRange(1, 4).Draw(t, "hot")
	genWord := rapid.Custom(func(t *rapid.T) string {
		k := rapid.IntRange(0, 9).Draw(t, "wk")
		switch {
		case k < 4:
			return caseVariant(t, vocab[rapid.IntRange(0, hot-1).Draw(t, "hw")])
		case k < 8:
			return caseVariant(t, rapid.SampledFrom(vocab).Draw(t, "vw"))
		default:
			return rapid.SampledFrom(stopPool).Draw(t, "sw")
		}
	})
	genText := rapid.Custom(func(t *rapid.T) string {
		n := rapid.IntRange(0, 10).Draw(t, "words")
		var sb strings.Builder
		if rapid.IntRange(0, 7).Draw(t, "lead") == 0 {
			sb.WriteString(rapid.SampledFrom(sepPool).Draw(t, "leadSep"))
		}
		for i := 0; i < n; i++ {
			if i > 0 {
				sb.WriteString(rapid.SampledFrom(sepPool).Draw(t, "sep"))
			}
			sb.WriteString(genWord.Draw(t, "w"))
		}
		if rapid.IntRange(0, 7).Draw(t, "trail") == 0 {
			sb.WriteString(rapid.SampledFrom(sepPool).Draw(t, "trailSep"))
		}
		return sb.String()
	})

	nDocs := rapid.IntRange(1, 12).Draw(t, "nDocs")
	ids := rapid.SliceOfNDistinct(rapid.SampledFrom(docIDPool), nDocs, nDocs, rapid.ID[string]).Draw(t, "ids")
	c := c32Case{}
	for _, id := range ids {
		c.Docs = append(c.Docs, doc{ID: id, Text: genText.Draw(t, "text")})
	}
	maxTx := 4
	if nDocs < maxTx {
		maxTx = nDocs
	}
	nTx := rapid.IntRange(1, maxTx).Draw(t, "nTx")
	// nTx-1 distinct interior cut points in 1..nDocs-1 (every batch non-empty)
	cuts := []int{0}
	if nTx > 1 {
		inner := rapid.SliceOfNDistinct(rapid.IntRange(1, nDocs-1), nTx-1, nTx-1, rapid.ID[int]).Draw(t, "cuts")
		sort.Ints(inner)
		cuts = append(cuts, inner...)
	}
	c.Cuts = append(cuts, nDocs)

	genQTerm := rapid.Custom(func(t *rapid.T) string {
		k := rapid.IntRange(0, 11).Draw(t, "qk")
		switch {
		case k < 4:
			return caseVariant(t, vocab[rapid.IntRange(0, hot-1).Draw(t, "qhw")])
		case k < 8:
			return caseVariant(t, rapid.SampledFrom(vocab).Draw(t, "qvw"))
		case k < 10:
			return rapid.SampledFrom(unknownPool).Draw(t, "quw")
		default:
			return rapid.SampledFrom(stopPool).Draw(t, "qsw")
		}
	})
	nQ := rapid.IntRange(1, 5).Draw(t, "nQ")
	for i := 0; i < nQ; i++ {
		var terms []string
		switch rapid.IntRange(0, 9).Draw(t, "qKind") {
		case 0: // stop words only
			n := rapid.IntRange(1, 3).Draw(t, "qn")
			for j := 0; j < n; j++ {
				terms = append(terms, rapid.SampledFrom(stopPool).Draw(t, "qs"))
			}
		case 1: // unknown only
			n := rapid.IntRange(1, 2).Draw(t, "qn")
			for j := 0; j < n; j++ {
				terms = append(terms, rapid.SampledFrom(unknownPool).Draw(t, "qu"))
			}
		case 2: // a repeated term
			w := genQTerm.Draw(t, "qr")
			terms = append(terms, w, caseVariant(t, w))
			if rapid.Bool().Draw(t, "qrMore") {
				terms = append(terms, genQTerm.Draw(t, "qt"))
			}
		default:
			n := rapid.IntRange(1, 4).Draw(t, "qn")
			for j := 0; j < n; j++ {
				terms = append(terms, genQTerm.Draw(t, "qt"))
			}
		}
		var sb strings.Builder
		for j, w := range terms {
			if j > 0 {
				sb.WriteString(rapid.SampledFrom(sepPool).Draw(t, "qsep"))
			}
			sb.WriteString(w)
		}
		c.Queries = append(c.Queries, sb.String())
	}
	c.InWriter = rapid.IntRange(0, 2).Draw(t, "inWriter") == 0
	c.AfterEachTx = rapid.Bool().Draw(t, "afterEachTx")
	return c
}

// ---------------------------------------------------------------------------------------
// reference model
// ---------------------------------------------------------------------------------------

type modelDoc struct {
	id  string
	len int
	tf  map[string]int
}

type model struct {
	docs []modelDoc
}

var tok = &search.SimpleTokenizer{}

func (m *model) add(id, text string) {
	toks := tok.Tokenize(text)
	d := modelDoc{id: id, len: len(toks), tf: map[string]int{}}
	for _, w := range toks {
		d.tf[w]++
	}
	m.docs = append(m.docs, d)
}

// score returns the reference scores for the query tokens qt (summed in the given order, one
// addend per element of qt). Documents with no query token are absent from the map.
func (m *model) score(qt []string) map[string]float64 {
	const k1, b = 1.2, 0.75
	out := map[string]float64{}
	n := float64(len(m.docs))
	if n == 0 {
		return out
	}
	total := 0
	for _, d := range m.docs {
		total += d.len
	}
	avg := float64(total) / n
	// document frequency of every query token
	df := map[string]int{}
	for _, w := range qt {
		if _, done := df[w]; done {
			continue
		}
		df[w] = 0
		for _, e := range m.docs {
			if e.tf[w] > 0 {
				df[w]++
			}
		}
	}
	for _, d := range m.docs {
		s, hit := 0.0, false
		for _, w := range qt {
			tf := d.tf[w]
			if tf == 0 {
				continue
			}
			idf := math.Log((n-float64(df[w])+0.5)/(float64(df[w])+0.5) + 1)
			f := float64(tf)
			s += idf * (f * (k1 + 1)) / (f + k1*(1-b+b*float64(d.len)/avg))
			hit = true
		}
		if hit {
			out[d.id] = s
		}
	}
	return out
}

func distinctInOrder(qt []string) []string {
	seen := map[string]bool{}
	var out []string
	for _, w := range qt {
		if !seen[w] {
			seen[w] = true
			out = append(out, w)
		}
	}
	return out
}

func relClose(a, b float64) bool {
	if a == b {
		return true
	}
	d := math.Abs(a - b)
	m := math.Max(math.Abs(a), math.Abs(b))
	return d <= 1e-9*m
}

// queryInfo is what the oracle learnt about one query (for labels / the non-trivial rule).
type queryInfo struct {
	matches        int
	distinctScores int
	repeated       bool
	noTokens       bool
}

// checkSearch compares one Search result with the reference. It returns "" when the result
// is acceptable, otherwise a description of the disagreement.
func checkSearch(m *model, query string, got []search.TextSearchResult) (queryInfo, string) {
	qt := tok.Tokenize(query)
	dq := distinctInOrder(qt)
	info := queryInfo{repeated: len(dq) != len(qt), noTokens: len(qt) == 0}
	want := m.score(qt) // every query token is one addend (the code sums "for each token")
	info.matches = len(want)

	// 1. exactly the matching documents, each once
	seen := map[string]int{}
	for _, r := range got {
		seen[r.DocID]++
	}
	var problems []string
	for id, n := range seen {
		if n > 1 {
			problems = append(problems, fmt.Sprintf("doc %q returned %d times", id, n))
		}
		if _, ok := want[id]; !ok {
			problems = append(problems, fmt.Sprintf("doc %q returned but holds no query term", id))
		}
	}
	for id := range want {
		if seen[id] == 0 {
			problems = append(problems, fmt.Sprintf("doc %q holds a query term but is missing", id))
		}
	}
	// 2. scores. With a repeated query term the docs do not say whether the term counts once
	// or once per occurrence; either reading is accepted, but the same one for the whole result.
	if len(problems) == 0 {
		bad := func(ref map[string]float64) []string {
			var p []string
			for _, r := range got {
				if !relClose(r.Score, ref[r.DocID]) {
					p = append(p, fmt.Sprintf("doc %q score %.17g, reference %.17g", r.DocID, r.Score, ref[r.DocID]))
				}
			}
			return p
		}
		p := bad(want)
		if len(p) > 0 && info.repeated {
			if p2 := bad(m.score(dq)); len(p2) == 0 {
				p = nil
			}
		}
		problems = append(problems, p...)
	}
	// 3. order: non-increasing scores, ties in any order
	for i := 1; i < len(got); i++ {
		if got[i-1].Score < got[i].Score || math.IsNaN(got[i].Score) || math.IsNaN(got[i-1].Score) {
			problems = append(problems, fmt.Sprintf("not descending at %d: %.17g then %.17g", i, got[i-1].Score, got[i].Score))
		}
	}
	ds := map[float64]bool{}
	for _, s := range want {
		ds[s] = true
	}
	info.distinctScores = len(ds)
	if len(problems) == 0 {
		return info, ""
	}
	sort.Strings(problems)
	return info, fmt.Sprintf("query %q (tokens %q): %s\n got  %v\n want %v", query, qt, strings.Join(problems, "; "), got, sortedRef(want))
}

func sortedRef(w map[string]float64) []search.TextSearchResult {
	var out []search.TextSearchResult
	for id, s := range w {
		out = append(out, search.TextSearchResult{DocID: id, Score: s})
	}
	sort.Slice(out, func(i, j int) bool {
		if out[i].Score != out[j].Score {
			return out[i].Score > out[j].Score
		}
		return out[i].DocID < out[j].DocID
	})
	return out
}

// ---------------------------------------------------------------------------------------
// driving the real index
// ---------------------------------------------------------------------------------------

var caseSeq atomic.Int64

type env struct {
	dir  string
	name string
	db   sop.DatabaseOptions
}

func newEnv() (*env, error) {
	dir, err := os.MkdirTemp("", "c32-")
	if err != nil {
		return nil, err
	}
	return &env{dir: dir, name: fmt.Sprintf("idx%d", caseSeq.Add(1)),
		db: sop.DatabaseOptions{StoresFolders: []string{dir}, CacheType: sop.InMemory}}, nil
}

func (e *env) close() { _ = os.RemoveAll(e.dir) }

// begin opens a transaction the way search's own tests do (infs.NewTransaction on a stores
// folder with the in-memory L2 cache) and opens the index in it.
func (e *env) begin(ctx context.Context, mode sop.TransactionMode) (sop.Transaction, *search.Index, error) {
	tr, err := infs.NewTransaction(ctx, sop.TransactionOptions{
		StoresFolders:        []string{e.dir},
		Mode:                 mode,
		CacheType:            sop.InMemory,
		RegistryHashModValue: 250,
	})
	if err != nil {
		return nil, nil, fmt.Errorf("NewTransaction: %w", err)
	}
	if err := tr.Begin(ctx); err != nil {
		return nil, nil, fmt.Errorf("Begin: %w", err)
	}
	idx, err := search.NewIndex(ctx, e.db, tr, e.name)
	if err != nil {
		_ = tr.Rollback(ctx)
		return nil, nil, fmt.Errorf("NewIndex: %w", err)
	}
	return tr, idx, nil
}

type fataler interface {
	Fatalf(format string, args ...any)
}

// scanStartsBeforePrefix lists (at most max) indexed terms for which the postings B-tree's
// Find("term|") leaves the cursor on a key smaller than "term|" (it happens when the term's
// first posting is a separator item of an interior node): the branch of Search that advances
// the cursor. It only chooses additional queries; nothing is asserted here. Public B-tree API,
// own reading transaction.
func (e *env) scanStartsBeforePrefix(ctx context.Context, m *model, max int) ([]string, error) {
	tr, err := infs.NewTransaction(ctx, sop.TransactionOptions{
		StoresFolders: []string{e.dir}, Mode: sop.ForReading, CacheType: sop.InMemory, RegistryHashModValue: 250})
	if err != nil {
		return nil, err
	}
	if err := tr.Begin(ctx); err != nil {
		return nil, err
	}
	defer tr.Rollback(ctx)
	b3, err := infs.OpenBtree[string, int](ctx, e.name+"/postings", tr, nil)
	if err != nil {
		return nil, err
	}
	seen := map[string]bool{}
	var terms []string
	for _, d := range m.docs {
		for w := range d.tf {
			if !seen[w] {
				seen[w] = true
				terms = append(terms, w)
			}
		}
	}
	sort.Strings(terms)
	var out []string
	for _, w := range terms {
		start := w + "|"
		found, err := b3.Find(ctx, start, true)
		if err != nil {
			return nil, err
		}
		if !found && b3.GetCurrentKey().Key < start {
			out = append(out, w)
			if len(out) >= max {
				break
			}
		}
	}
	return out, nil
}

// runCase drives the real index through c and checks every search point. It returns the
// per-query oracle info of the final search point. With adaptive set, the final search point
// also queries the terms reported by scanStartsBeforePrefix (their count is the second result).
func runCase(t fataler, c c32Case, adaptive bool) ([]queryInfo, int) {
	ctx := context.Background()
	e, err := newEnv()
	if err != nil {
		t.Fatalf("HARNESS-ERROR: temp dir: %v", err)
	}
	defer e.close()

	m := &model{}
	var extraQueries []string
	searchAll := func(idx *search.Index, where string) []queryInfo {
		var infos []queryInfo
		for _, q := range append(append([]string{}, c.Queries...), extraQueries...) {
			got, err := idx.Search(ctx, q)
			if err != nil {
				t.Fatalf("Search(%q) %s: %v\ncase: %s", q, where, err, c.brief())
			}
			info, msg := checkSearch(m, q, got)
			if msg != "" {
				t.Fatalf("C32 %s (%d docs indexed): %s\ncase: %s", where, len(m.docs), msg, c.brief())
			}
			infos = append(infos, info)
		}
		return infos
	}
	reader := func(where string) []queryInfo {
		tr, idx, err := e.begin(ctx, sop.ForReading)
		if err != nil {
			t.Fatalf("open reader %s: %v\ncase: %s", where, err, c.brief())
		}
		infos := searchAll(idx, where)
		if err := tr.Commit(ctx); err != nil {
			t.Fatalf("reader commit %s: %v\ncase: %s", where, err, c.brief())
		}
		return infos
	}

	nTx := len(c.Cuts) - 1
	for k := 0; k < nTx; k++ {
		tr, idx, err := e.begin(ctx, sop.ForWriting)
		if err != nil {
			t.Fatalf("open writer %d: %v\ncase: %s", k, err, c.brief())
		}
		for _, d := range c.Docs[c.Cuts[k]:c.Cuts[k+1]] {
			if err := idx.Add(ctx, d.ID, d.Text); err != nil {
				t.Fatalf("Add(%q) in tx %d: %v\ncase: %s", d.ID, k, err, c.brief())
			}
			m.add(d.ID, d.Text)
		}
		if c.InWriter && k == nTx-1 {
			searchAll(idx, fmt.Sprintf("inside writer tx %d before commit", k))
		}
		if err := tr.Commit(ctx); err != nil {
			t.Fatalf("Commit of indexing tx %d: %v\ncase: %s", k, err, c.brief())
		}
		if c.AfterEachTx && k < nTx-1 {
			reader(fmt.Sprintf("reader after tx %d of %d", k, nTx))
		}
	}
	if adaptive {
		extraQueries, err = e.scanStartsBeforePrefix(ctx, m, 40)
		if err != nil {
			t.Fatalf("probing the postings store: %v\ncase: %s", err, c.brief())
		}
	}
	return reader(fmt.Sprintf("reader after all %d tx", nTx)), len(extraQueries)
}

func TestC32_SearchMatchesReferenceBM25(t *testing.T) {
	rec := stats.For("C32").Meta("exploration",
		"corpus of 1-12 distinct doc ids indexed in 1-4 committed transactions, 1-5 queries of 1-4 terms searched in a fresh reader (optionally also after each tx and inside the last writer); non-trivial = some query has >= 2 matching docs with different reference scores and indexing used >= 2 transactions; distinct by rendered corpus+cuts+queries",
		"tokens of documents and queries come from the package's exported SimpleTokenizer (not the subject)",
		"doc ids are distinct and non-empty (re-adding an id is not documented)",
		"a repeated query term may count once or once per occurrence (undocumented); one reading must fit the whole result",
		"tie order among equal scores is unspecified")
	bud := newBudget()
	rapid.Check(t, func(t *rapid.T) {
		if bud.spent(rec) {
			return
		}
		c := genCase(t)
		infos, _ := runCase(t, c, false)

		nTx := len(c.Cuts) - 1
		labels := []string{fmt.Sprintf("tx=%d", nTx)}
		switch n := len(c.Docs); {
		case n == 1:
			labels = append(labels, "docs=1")
		case n <= 4:
			labels = append(labels, "docs=2-4")
		default:
			labels = append(labels, "docs=5-12")
		}
		if c.InWriter {
			labels = append(labels, "searchInsideWriter")
		}
		if c.AfterEachTx && nTx > 1 {
			labels = append(labels, "searchAfterEachTx")
		}
		m := &model{}
		for _, d := range c.Docs {
			m.add(d.ID, d.Text)
			if !strings.HasPrefix(d.ID, "d") || len(d.ID) != 3 {
				labels = append(labels, "doc:specialID")
			}
		}
		terms := map[string]bool{}
		for _, d := range m.docs {
			if d.len == 0 {
				labels = append(labels, "doc:empty")
			}
			for w, f := range d.tf {
				terms[w] = true
				if f > 1 {
					labels = append(labels, "doc:tf>1")
				}
			}
		}
		for w := range terms {
			if w[0] >= 0x80 {
				labels = append(labels, "term:nonASCII")
				break
			}
		}
		nontrivial := false
		for i, info := range infos {
			qt := tok.Tokenize(c.Queries[i])
			switch {
			case info.noTokens:
				labels = append(labels, "q:stopWordsOnly")
			case info.matches == 0:
				labels = append(labels, "q:noMatch")
			case info.matches == 1:
				labels = append(labels, "q:1match")
			default:
				labels = append(labels, "q:>=2matches")
			}
			if info.repeated {
				labels = append(labels, "q:repeatedTerm")
			}
			if info.matches >= 2 && info.distinctScores < info.matches {
				labels = append(labels, "q:tiedScores")
			}
			if info.matches >= 2 && info.distinctScores >= 2 {
				labels = append(labels, "q:differentScores")
				if nTx >= 2 {
					nontrivial = true
				}
			}
			unknown, multi := false, 0
			for _, w := range distinctInOrder(qt) {
				if !terms[w] {
					unknown = true
				} else {
					multi++
				}
				for o := range terms {
					if o != w && strings.HasPrefix(o, w) {
						labels = append(labels, "q:termIsPrefixOfIndexedTerm")
						break
					}
				}
			}
			if unknown && !info.noTokens {
				labels = append(labels, "q:hasUnknownTerm")
			}
			if multi >= 2 {
				labels = append(labels, "q:>=2knownTerms")
			}
		}
		labels = dedupe(labels)
		rec.Case(c.canon(), nontrivial, labels...)
		if nontrivial {
			rec.Sample("nontrivial", c.canon())
		} else {
			rec.Sample("trivial", c.canon())
		}
	})
}

// budget bounds the wall time of one test process: once it is used up the remaining rapid
// iterations return at once and are counted as discarded (never failed). The clock is a
// budget only, no oracle looks at it. A run left with too few cases ends "inconclusive"
// through the min_nontrivial floor, not through a test timeout.
type budget struct{ end time.Time }

func newBudget() budget {
	return budget{end: time.Now().Add(stats.Pick(150*time.Second, 540*time.Second))}
}

func (b budget) spent(rec *stats.Rec) bool {
	if time.Now().After(b.end) {
		rec.Discard()
		return true
	}
	return false
}

func dedupe(in []string) []string {
	seen := map[string]bool{}
	var out []string
	for _, s := range in {
		if !seen[s] {
			seen[s] = true
			out = append(out, s)
		}
	}
	sort.Strings(out)
	return out
}
