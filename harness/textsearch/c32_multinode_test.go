package textsearch

import (
	"fmt"
	"sort"
	"strings"
	"testing"

	"github.com/sharedcode/sop/btree"
	"pgregory.net/rapid"

	"verif/harness/stats"
)

// mix64 is the splitmix64 finaliser (a fixed bijection; no randomness of its own).
func mix64(x uint64) uint64 {
	x += 0x9e3779b97f4a7c15
	x = (x ^ (x >> 30)) * 0xbf58476d1ce4e5b9
	x = (x ^ (x >> 27)) * 0x94d049bb133111eb
	return x ^ (x >> 31)
}

func gcd(a, b int) int {
	for b != 0 {
		a, b = b, a%b
	}
	return a
}

func genBigCase(t *rapid.T) (c32Case, int) {
	vocabN := rapid.IntRange(22, len(wordPool)).Draw(t, "vocabN")
	vocab := rapid.SliceOfNDistinct(rapid.SampledFrom(wordPool), vocabN, vocabN, rapid.ID[string]).Draw(t, "vocab")
	nDocs := rapid.IntRange(460, 700).Draw(t, "nDocs")
	order := rapid.IntRange(0, 2).Draw(t, "order")
	stride := 1
	if order == 2 {
		stride = rapid.IntRange(2, nDocs-1).Draw(t, "stride")
		for gcd(stride, nDocs) != 1 {
			stride++
		}
	}
	// rare words: each document also gets rareN words of its own ("<prefix><doc>x<j>", one token),
	// so many terms have a single posting and an interior node's separator item is often the
	// first posting of its term.
	rareN := rapid.IntRange(0, 6).Draw(t, "rareN")
	rarePrefix := rapid.SampledFrom([]string{"c", "h", "m", "r", "y", "ö"}).Draw(t, "rarePrefix")
	c := c32Case{}
	postings := 0
	for i := 0; i < nDocs; i++ {
		var n int
		switch order {
		case 0:
			n = i
		case 1:
			n = nDocs - 1 - i
		default:
			n = (i * stride) % nDocs
		}
		// the word set of a document is a deterministic mix of one drawn number and the document
		// number (rapid's integer generators favour small values; mixing keeps documents varied)
		a := rapid.Uint32().Draw(t, "words")
		mask := mix64(uint64(a)^uint64(n)<<32) & (1<<uint(vocabN) - 1)
		rep := rapid.IntRange(0, 3).Draw(t, "rep")
		var ws []string
		for j := 0; j < vocabN; j++ {
			if mask&(1<<uint(j)) != 0 {
				ws = append(ws, vocab[j])
				postings++
				for r := 0; r < rep && j%5 == int(a%5); r++ {
					ws = append(ws, vocab[j])
				}
			}
		}
		for j := 0; j < rareN; j++ {
			ws = append(ws, fmt.Sprintf("%s%dx%d", rarePrefix, n, j))
			postings++
		}
		if i%97 == 13 {
			ws = append(ws, "the", "of")
		}
		c.Docs = append(c.Docs, doc{ID: fmt.Sprintf("k%03d", n), Text: strings.Join(ws, " ")})
	}
	nTx := rapid.IntRange(2, 3).Draw(t, "nTx")
	inner := rapid.SliceOfNDistinct(rapid.IntRange(1, nDocs-1), nTx-1, nTx-1, rapid.ID[int]).Draw(t, "cuts")
	sort.Ints(inner)
	c.Cuts = append(append([]int{0}, inner...), nDocs)

	// every indexed word on its own (each prefix scan starts somewhere else in the tree), a few
	// multi-term queries, and words that are not indexed but sort between indexed ones.
	c.Queries = append(c.Queries, vocab...)
	for i := 0; i < 4; i++ {
		k := rapid.IntRange(2, 4).Draw(t, "qn")
		var ts []string
		for j := 0; j < k; j++ {
			if rapid.IntRange(0, 5).Draw(t, "qu") == 0 {
				ts = append(ts, rapid.SampledFrom(unknownPool).Draw(t, "quw"))
			} else {
				ts = append(ts, rapid.SampledFrom(vocab).Draw(t, "qw"))
			}
		}
		c.Queries = append(c.Queries, strings.Join(ts, rapid.SampledFrom(sepPool).Draw(t, "qsep")))
	}
	c.InWriter = rapid.IntRange(0, 2).Draw(t, "inWriter") == 0
	c.AfterEachTx = rapid.Bool().Draw(t, "afterEachTx")
	return c, postings
}

// TestC32_MultiNodePostings is the same property on corpora large enough that the postings
// store ("term|docID" keys, slot length btree.DefaultSlotLength fixed by NewIndex) no longer fits
// one B-tree node, so Search's prefix scan has to position itself and walk across node
// boundaries. The small-corpus test never reaches that code (at most ~180 postings). The
// oracle, the tokenizer and the driver are the ones of the small test.
func TestC32_MultiNodePostings(t *testing.T) {
	rec := stats.For("C32").Meta("exploration",
		"large corpus: 460-700 distinct docs over 22-28 shared words plus 0-6 words of their own each in 2-3 committed transactions so that the postings store exceeds one B-tree node; every shared word plus 4 multi-term queries, plus (chosen by probing the postings store through the public B-tree API) up to 40 terms whose scan starts on a key before the prefix; same oracle and non-trivial rule",
		"tokens of documents and queries come from the package's exported SimpleTokenizer (not the subject)")
	bud := newBudget()
	rapid.Check(t, func(t *rapid.T) {
		if bud.spent(rec) {
			return
		}
		c, postings := genBigCase(t)
		infos, advanced := runCase(t, c, true)
		nTx := len(c.Cuts) - 1
		labels := []string{"big", fmt.Sprintf("big:tx=%d", nTx)}
		if postings > btree.DefaultSlotLength {
			labels = append(labels, "big:postings>slotLength(multi-node)")
		} else {
			labels = append(labels, "big:postings<=slotLength")
		}
		if advanced > 0 {
			labels = append(labels, "big:q:scanStartsBeforePrefix")
		}
		if c.InWriter {
			labels = append(labels, "big:searchInsideWriter")
		}
		if c.AfterEachTx {
			labels = append(labels, "big:searchAfterEachTx")
		}
		nontrivial := false
		for _, info := range infos {
			if info.matches >= 2 && info.distinctScores >= 2 && nTx >= 2 {
				nontrivial = true
			}
			if info.matches >= 2 && info.distinctScores < info.matches {
				labels = append(labels, "big:q:tiedScores")
			}
			if info.matches == 0 {
				labels = append(labels, "big:q:noMatch")
			}
		}
		rec.Case(c.canon(), nontrivial && postings > btree.DefaultSlotLength, dedupe(labels)...)
		rec.Sample("big", fmt.Sprintf("%d docs, %d postings, cuts %v, first doc %q:%q, last query %q",
			len(c.Docs), postings, c.Cuts, c.Docs[0].ID, c.Docs[0].Text, c.Queries[len(c.Queries)-1]))
	})
}
