#!/bin/bash
# Runs the repository's own suite (guard off) on a tree and compares with BASELINE.json's stable_pass.
# usage: tools/baseline.sh [repo_dir]   -> prints tests that were stable_pass but did not pass now
REPO=${1:-/repo}
OUT=$(mktemp -d)
for m in . adapters/cassandra adapters/redis ai incfs infs jsondb search; do
  (cd $REPO/$m && go test -json -vet=off -count=1 -timeout 25m ./... ) >> $OUT/all.json 2>/dev/null
done
python3 - $OUT/all.json <<'PY'
import json,sys
passed=set();failed=set()
for l in open(sys.argv[1]):
    try: e=json.loads(l)
    except Exception: continue
    if e.get('Test') and e.get('Action') in('pass','fail'):
        k=e['Package']+'::'+e['Test']
        (passed if e['Action']=='pass' else failed).add(k)
b=json.load(open('/root/.vp/BASELINE.json'))
sp=set(b['stable_pass'])
missing=sorted(sp-passed)
print('passed',len(passed),'failed',len(failed),'stable_pass',len(sp),'stable_pass_not_passing',len(missing))
for m in missing: print('  MISSING',m, '(failed)' if m in failed else '(not run)')
newfail=sorted(failed-set(b['always_fail'])-set(b['flaky']))
for m in newfail: print('  NEWFAIL',m)
PY
rm -rf $OUT
