#!/usr/bin/env python3
"""Confirms a seeded breaking change and runs checks against it.

usage: tools/seedcheck.py <seed-id> <property> [check ...]   (seed dir: /tmp/seed/<seed-id>/ with patch.diff + demo)

 1. fresh worktree of /repo HEAD under /tmp, patch applied (must apply and build)
 2. the touched packages' own tests: same failing set as on the unpatched tree
 3. the demonstration fails with the patch and passes without it
 4. ./check <property> (+ extra checks) with VERIF_REPO=<patched tree>: exit code per check
 5. writes /verif/seeded/<seed-id>/{patch.diff, demo files, meta.json}
"""
import json, os, re, shutil, subprocess, sys, time

ROOT = os.path.dirname(os.path.dirname(os.path.abspath(__file__)))


def sh(cmd, cwd=None, env=None, timeout=3600):
    p = subprocess.run("set -o pipefail; " + cmd, shell=True, executable="/bin/bash", cwd=cwd, env=env, stdout=subprocess.PIPE, stderr=subprocess.STDOUT, text=True, timeout=timeout)
    return p.returncode, p.stdout


def pkg_dirs(patch):
    dirs = set()
    for m in re.finditer(r"^\+\+\+ b/(.+)$", patch, re.M):
        f = m.group(1)
        if f.endswith(".go"):
            dirs.add(os.path.dirname(f) or ".")
    return sorted(dirs)


def module_of(wt, d):
    cur = os.path.join(wt, d)
    while True:
        if os.path.exists(os.path.join(cur, "go.mod")):
            return cur
        cur = os.path.dirname(cur)


def failing(out):
    return sorted(set(re.findall(r"^--- FAIL: (\S+)", out, re.M)))


def main():
    sid, prop = sys.argv[1], sys.argv[2]
    checks = [prop] + sys.argv[3:]
    src = "/tmp/seed/%s" % sid
    patch = open(os.path.join(src, "patch.diff")).read()
    wt = "/tmp/mut-%s" % sid
    sh("git -C /repo worktree remove --force %s" % wt)
    rc, out = sh("git -C /repo worktree add --detach %s HEAD" % wt)
    meta = dict(seed=sid, property=prop, repo_head=sh("git -C /repo log --format=%h -1")[1].strip(), steps={})
    try:
        # demo files (anything *_test.go or *.go besides patch) copied into place by name hints in notes
        demos = [f for f in os.listdir(src) if f.endswith(".go")]
        rc, out = sh("git apply --check %s/patch.diff" % src, cwd=wt)
        if rc != 0:
            rc, out = sh("git apply --3way %s/patch.diff" % src, cwd=wt)
            meta["steps"]["apply"] = "3way rc=%d %s" % (rc, out[-300:])
            if rc != 0:
                print("PATCH DOES NOT APPLY to current HEAD:", out[-500:])
                meta["verdict"] = "does-not-apply"
                return finish(sid, src, meta, demos)
            sh("git reset -q", cwd=wt)
        else:
            sh("git apply %s/patch.diff" % src, cwd=wt)
            meta["steps"]["apply"] = "clean"
        # the patch as it applies to this HEAD (context may differ from the seeder's after a 3-way merge)
        applied = "/tmp/mut-%s.applied.diff" % sid
        sh("git diff > %s" % applied, cwd=wt)
        dirs = pkg_dirs(patch)
        meta["touched_packages"] = dirs
        # package tests with and without
        res = {}
        for d in dirs:
            mod = module_of(wt, d)
            rel = "./" + os.path.relpath(os.path.join(wt, d), mod)
            rc1, out1 = sh("go test -vet=off -count=1 %s 2>&1 | tail -400" % rel, cwd=mod)
            base_mod = mod.replace(wt, "/repo")
            rc0, out0 = sh("go test -vet=off -count=1 %s 2>&1 | tail -400" % rel, cwd=base_mod)
            f1, f0 = failing(out1), failing(out0)
            build_fail = "[build failed]" in out1 or "cannot" in out1 and "FAIL" in out1 and not f1 and rc1 != 0 and "ok" not in out1
            res[d] = dict(patched_failing=f1, baseline_failing=f0, new_failures=sorted(set(f1) - set(f0)), build_failed=build_fail)
        meta["steps"]["package_tests"] = res
        newf = [x for d in res.values() for x in d["new_failures"]]
        # demo: find where it belongs: notes or first line "// place: <dir>"; default = first touched dir
        demo_res = {}
        for f in demos:
            txt = open(os.path.join(src, f)).read()
            m = re.search(r"^package (\w+)", txt, re.M)
            target = None
            # look for the same file name inside the seeder's own worktree to learn its directory
            swt = "/tmp/seedwt-%s" % sid.split("-")[0]
            for base, _, files in os.walk(swt):
                if f in files and ".git" not in base:
                    target = os.path.relpath(base, swt)
                    break
            if target is None:
                # an earlier confirmation recorded it
                try:
                    old = json.load(open(os.path.join(ROOT, "seeded", sid, "meta.json")))
                    target = old["steps"]["demo"][f]["dir"] if old.get("confirmed") else None
                except Exception:
                    target = None
            if target is None and os.path.exists(os.path.join(src, "notes.md")):
                m2 = re.search(r"([\w/]+)/" + re.escape(f), open(os.path.join(src, "notes.md")).read().replace("/tmp/seedwt-%s/" % sid, ""))
                if m2 and os.path.isdir(os.path.join(wt, m2.group(1))):
                    target = m2.group(1)
            if target is None:
                target = dirs[0] if dirs else "."
            dst = os.path.join(wt, target, f)
            shutil.copy(os.path.join(src, f), dst)
            mod = module_of(wt, target)
            rel = "./" + os.path.relpath(os.path.join(wt, target), mod)
            tests = re.findall(r"^func (Test\w+)\(", txt, re.M)
            run = "^(%s)$" % "|".join(tests) if tests else "."
            rc1, out1 = sh("go test -vet=off -count=1 -run '%s' %s 2>&1 | tail -30" % (run, rel), cwd=mod)
            # without the patch
            sh("git apply -R %s" % applied, cwd=wt)
            rc0, out0 = sh("go test -vet=off -count=1 -run '%s' %s 2>&1 | tail -30" % (run, rel), cwd=mod)
            sh("git apply %s" % applied, cwd=wt)
            os.remove(dst)
            demo_res[f] = dict(dir=target, with_patch_rc=rc1, without_patch_rc=rc0, with_tail=out1[-400:], without_tail=out0[-300:])
        meta["steps"]["demo"] = demo_res
        demo_ok = bool(demo_res) and all(v["with_patch_rc"] != 0 and v["without_patch_rc"] == 0 for v in demo_res.values())
        meta["confirmed"] = bool(demo_ok and not newf)
        # our checks
        cres = {}
        before = set(os.path.join(b, f) for b, _, fs in os.walk(os.path.join(ROOT, "replays")) for f in fs)
        env = dict(os.environ, VERIF_REPO=wt)
        for c in checks:
            t0 = time.time()
            rc, out = sh("./check %s --tier quick 2>&1 | tail -6" % c, cwd=ROOT, env=env, timeout=3000)
            viol = re.findall(r"^VIOLATION .*$", out, re.M)
            cres[c] = dict(exit=rc_of(out), wall_s=round(time.time() - t0, 1), violation=viol[:1], tail=out[-300:])
        meta["steps"]["checks"] = cres
        meta["caught_by"] = [c for c, v in cres.items() if v["exit"] == 1]
        for b, _, fs in os.walk(os.path.join(ROOT, "replays")):
            for f in fs:
                if os.path.join(b, f) not in before:
                    os.remove(os.path.join(b, f))
    finally:
        sh("git -C /repo worktree remove --force %s" % wt)
        sh("cd %s && git checkout -q -- evidence 2>/dev/null" % ROOT)
    return finish(sid, src, meta, demos)


def rc_of(out):
    m = re.search(r"exit=(\d)", out)
    return int(m.group(1)) if m else -1


def finish(sid, src, meta, demos):
    dst = os.path.join(ROOT, "seeded", sid)
    os.makedirs(dst, exist_ok=True)
    shutil.copy(os.path.join(src, "patch.diff"), dst)
    applied = "/tmp/mut-%s.applied.diff" % sid
    if os.path.exists(applied) and os.path.getsize(applied) > 0:
        if open(applied).read() != open(os.path.join(src, "patch.diff")).read():
            shutil.copy(os.path.join(src, "patch.diff"), os.path.join(dst, "patch.as-delivered.diff"))
        shutil.copy(applied, os.path.join(dst, "patch.diff"))
        os.remove(applied)
    for f in demos:
        shutil.copy(os.path.join(src, f), os.path.join(dst, f + ".txt"))
    if os.path.exists(os.path.join(src, "notes.md")):
        shutil.copy(os.path.join(src, "notes.md"), dst)
    json.dump(meta, open(os.path.join(dst, "meta.json"), "w"), indent=1)
    print(json.dumps({k: meta.get(k) for k in ("seed", "property", "confirmed", "caught_by")}, indent=1))
    for c, v in meta.get("steps", {}).get("checks", {}).items():
        print(" ", c, "exit", v["exit"], v["wall_s"], "s")
    return 0


if __name__ == "__main__":
    sys.exit(main())
