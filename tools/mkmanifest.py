#!/usr/bin/env python3
"""Regenerates /verif/MANIFEST.json from checks.d/*.json (+ not_applicable.json) and validates it."""
import json, os, sys
ROOT = os.path.dirname(os.path.dirname(os.path.abspath(__file__)))
cfg = {}
for f in sorted(os.listdir(os.path.join(ROOT, "checks.d"))):
    if f.endswith(".json"):
        cfg[f[:-5]] = json.load(open(os.path.join(ROOT, "checks.d", f)))
na = json.load(open(os.path.join(ROOT, "not_applicable.json")))
props = [json.loads(l)["id"] for l in open(os.path.join(ROOT, "properties.jsonl"))]
hooks = json.load(open(os.path.join(ROOT, "hooks.json")))
checks = []
for p in props:
    if p not in cfg or not cfg[p].get("manifest"):
        continue
    m = cfg[p]["manifest"]
    c = {
        "property_id": p,
        "quick_cmd": "./check %s --tier quick" % p,
        "thorough_cmd": "./check %s --tier thorough" % p,
        "evidence_file": "/verif/evidence/%s.json" % p,
        "replay_cmd_template": "./check %s --replay {path}" % p,
        "engine": m.get("engine", "harness"),
        "level_claimed": {"category": cfg[p].get("level", "exploration"), "text": m["text"], "design_ref": m.get("design_ref", "DESIGN.md section 4, " + p)},
        "level_note": m["note"],
        "technique": m["technique"],
    }
    checks.append(c)
claimed = {c["property_id"] for c in checks}
nal = []
for p in props:
    if p in claimed:
        continue
    nal.append({"property_id": p, "reason": na.get(p, "check not built yet in this session; see DESIGN.md section 4 for the planned design")})
man = {
    "version": 1,
    "setup_cmd": "./setup.sh",
    "hooks": hooks,
    "engines": [
        {"name": "harness", "path": "/verif/harness", "serves_properties": sorted(claimed),
         "kind_free_text": "Go module using pgregory.net/rapid v1.3.0 (property-based, stateful/model-based generation, shrinking) and native go fuzzing in the thorough tier; compiles /repo in place through replace directives; driver /verif/check shards, merges stats, writes evidence"},
    ],
    "checks": checks,
    "notes": "All checks are decided by generated-input search against an explicit oracle (property-based testing / fuzzing). ./check <id> --tier quick|thorough; exit 0 held, 1 VIOLATION, 2 inconclusive. known_findings.json lists genuine defects (KNOWN-FINDING lines).",
    "not_applicable": nal,
}
json.dump(man, open(os.path.join(ROOT, "MANIFEST.json"), "w"), indent=1)
try:
    import jsonschema
    jsonschema.validate(man, json.load(open("/root/.vp/MANIFEST.schema.json")))
    print("MANIFEST.json valid: %d checks, %d not_applicable" % (len(checks), len(nal)))
except ImportError:
    print("jsonschema not importable; wrote MANIFEST.json unchecked")
