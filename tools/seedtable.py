#!/usr/bin/env python3
"""Prints the DESIGN.md table of seeded changes from /verif/seeded/*/meta.json (+ summary.json written by hand)."""
import json, os, glob

ROOT = os.path.dirname(os.path.dirname(os.path.abspath(__file__)))
extra = {}
p = os.path.join(ROOT, "seeded", "summary.json")
if os.path.exists(p):
    extra = json.load(open(p))
print("| Seed | Property | Change (file) | Needs | Confirmed | Checks run (quick) | Caught by | First result / what was strengthened |")
print("|---|---|---|---|---|---|---|---|")
for d in sorted(glob.glob(os.path.join(ROOT, "seeded", "*", "meta.json"))):
    m = json.load(open(d))
    sid = m["seed"]
    e = extra.get(sid, {})
    if e and (m.get("change") != e.get("change") or m.get("needs") != e.get("needs") or m.get("history") != e.get("history")):
        m["change"], m["needs"], m["history"] = e.get("change"), e.get("needs"), e.get("history")
        json.dump(m, open(d, "w"), indent=1)
    files = ", ".join(m.get("touched_packages", []))
    ran = ", ".join("%s=%s" % (c, {1: "VIOLATION", 0: "quiet", 2: "inconclusive", -1: "?"}.get(v["exit"], v["exit"])) for c, v in m.get("steps", {}).get("checks", {}).items())
    esc = lambda x: str(x).replace("|", "\\|")
    print("| %s | %s | %s (%s) | %s | %s | %s | %s | %s |" % (sid, m["property"], esc(e.get("change", "")), files, esc(e.get("needs", "")), "yes" if m.get("confirmed") else "no", ran,
          ", ".join(m.get("caught_by", [])) or "-", esc(e.get("history", ""))))
