#!/usr/bin/env python3
"""Prints the 'typical quick-tier numbers' paragraph of DESIGN.md 9.2 from evidence/*.json."""
import json, glob, os
ROOT = os.path.dirname(os.path.dirname(os.path.abspath(__file__)))
out = []
for f in sorted(glob.glob(os.path.join(ROOT, "evidence", "C*.json"))):
    e = json.load(open(f))
    c = e.get("coverage", {})
    out.append("%s %s/%s/%.0f s" % (e["property_id"], c.get("evaluations"), c.get("distinct_nontrivial"), e.get("wall_s", 0)))
print(", ".join(out))
